"""C01 — config deduplication never changes what a launch observes.

(H) hand model coq/Model/AccDedup.v: one function per rewrite pattern of
snaxc/transforms/accfg_dedup.py (with the Python's applicability tests).
L1: match_and_rewrite of the five pattern classes is wrapped in this process; every rewrite that
changed the IR is recorded (pattern, matched setup, IR before, real infer_state_of table, IR
after) and compared EXACTLY (prog_eqb) with the model's rule applied to the same setup.
L2 (property on the implementation, no model): the real IR before accfg-trace-states and after
accfg-dedup is executed on the Coq machine for sampled runtime inputs (trip counts 0-4, lb != 0,
step > 1, both branch outcomes, adversarial clobber values) and the traces are compared with
trace_sim_b: same launch/await/call sequence and, at each launch, equal registers on every field
the original run has written since the last clobber.
"""
from __future__ import annotations

import glob
import json
import os

import vlib

import acc_common as AC
import accir

PROPERTY = "C01"
MODEL_TARGETS = ["Model/AccDedup.vo", "Model/AccWeave.vo", "Model/AccRules.vo"]
RULE = ("functions in lowering form as for C07 (1-2 accelerators x 1-3 fields, setup+launch+await triples, scf.for / "
        "scf.if nested to depth 3, calls with/without accfg.effects<none>, loop-derived arithmetic), plus if/else "
        "followed by a setup (hoisting), scf.if ops that also yield an i32 used by the following setup, loops "
        "alternating between configurations (every program with a loop is run with 0, 1, 2, 3 and a random number "
        "of iterations), and the functions of "
        "tests/filecheck/transforms/acc-dedup.mlir; the real accfg-trace-states then accfg-dedup are run; L1 cases = "
        "individual recorded rewrites (non-trivial by construction: the IR changed), L2 cases = (program, runtime "
        "input) pairs; distinct = distinct (pattern, IR before) / (program text, input)")
TRUSTED_BASE = [
    "Coq 8.16.1 kernel + vm_compute (no native_compute)",
    "abstract machine coq/Model/AccSem.v (specification of what a launch observes; trace_sim_b is the property)",
    "harness/accir.py (structural xDSL -> abstract IR converter), harness/acc_common.py (rewrite recorder: wraps match_and_rewrite, reads rewriter.has_done_action), this plugin",
    "harness/xdsl_compat.py; xDSL 0.70 parser/rewriter/greedy driver/is_side_effect_free",
]
ASSUMPTIONS = [
    "theorems cover the rules proved in coq/Proofs/AccDedupProofs.v (see Props/C01.v); the remaining rules are covered by L1 (exact rule correspondence) and L2 (trace comparison) only",
    "xDSL's greedy driver / walk order is not modelled: theorems are per rule application and for any finite sequence",
    "integers are mathematical (no wrap-around); opaque calls may rewrite every register of every accelerator (oracle)",
]

EXTRA = """
func.func @f(%x : i32, %y : i32, %z : i32, %c : i1, %lb : index, %ub : index, %st : index) {
  %s0 = accfg.setup "acc0" to ("A" = %x : i32, "B" = %y : i32) : !accfg.state<"acc0">
  %t0 = "accfg.launch"(%s0) <{param_names = [], accelerator = "acc0"}> : (!accfg.state<"acc0">) -> !accfg.token<"acc0">
  "accfg.await"(%t0) : (!accfg.token<"acc0">) -> ()
  scf.if %c {
    %s1 = accfg.setup "acc0" to ("A" = %z : i32, "B" = %y : i32) : !accfg.state<"acc0">
    %t1 = "accfg.launch"(%s1) <{param_names = [], accelerator = "acc0"}> : (!accfg.state<"acc0">) -> !accfg.token<"acc0">
    "accfg.await"(%t1) : (!accfg.token<"acc0">) -> ()
    scf.yield
  } else {
    %s2 = accfg.setup "acc0" to ("A" = %x : i32, "B" = %z : i32) : !accfg.state<"acc0">
    %t2 = "accfg.launch"(%s2) <{param_names = [], accelerator = "acc0"}> : (!accfg.state<"acc0">) -> !accfg.token<"acc0">
    "accfg.await"(%t2) : (!accfg.token<"acc0">) -> ()
    scf.yield
  }
  %s3 = accfg.setup "acc0" to ("A" = %z : i32, "B" = %z : i32) : !accfg.state<"acc0">
  %t3 = "accfg.launch"(%s3) <{param_names = [], accelerator = "acc0"}> : (!accfg.state<"acc0">) -> !accfg.token<"acc0">
  "accfg.await"(%t3) : (!accfg.token<"acc0">) -> ()
  scf.for %i = %lb to %ub step %st {
    %s4 = accfg.setup "acc0" to ("A" = %z : i32, "B" = %y : i32) : !accfg.state<"acc0">
    %t4 = "accfg.launch"(%s4) <{param_names = [], accelerator = "acc0"}> : (!accfg.state<"acc0">) -> !accfg.token<"acc0">
    "accfg.await"(%t4) : (!accfg.token<"acc0">) -> ()
    %s5 = accfg.setup "acc0" to ("A" = %x : i32, "B" = %y : i32) : !accfg.state<"acc0">
    %t5 = "accfg.launch"(%s5) <{param_names = [], accelerator = "acc0"}> : (!accfg.state<"acc0">) -> !accfg.token<"acc0">
    "accfg.await"(%t5) : (!accfg.token<"acc0">) -> ()
    scf.yield
  }
  func.return
}
"""
# F22b (audit): the scf.if also yields an i32 and the setup right behind it uses that result; the setup must
# stay where it is (the un-repaired pattern cloned it into the scf.if that defines its operand)
IFRES = """
func.func @f(%x : i32, %y : i32, %c : i1) {
  %s0 = accfg.setup "acc0" to ("A" = %x : i32, "B" = %y : i32) : !accfg.state<"acc0">
  %t0 = "accfg.launch"(%s0) <{param_names = [], accelerator = "acc0"}> : (!accfg.state<"acc0">) -> !accfg.token<"acc0">
  "accfg.await"(%t0) : (!accfg.token<"acc0">) -> ()
  %r = scf.if %c -> (i32) {
    %s1 = accfg.setup "acc0" to ("A" = %y : i32, "B" = %y : i32) : !accfg.state<"acc0">
    %t1 = "accfg.launch"(%s1) <{param_names = [], accelerator = "acc0"}> : (!accfg.state<"acc0">) -> !accfg.token<"acc0">
    "accfg.await"(%t1) : (!accfg.token<"acc0">) -> ()
    scf.yield %x : i32
  } else {
    %s2 = accfg.setup "acc0" to ("A" = %x : i32, "B" = %x : i32) : !accfg.state<"acc0">
    %t2 = "accfg.launch"(%s2) <{param_names = [], accelerator = "acc0"}> : (!accfg.state<"acc0">) -> !accfg.token<"acc0">
    "accfg.await"(%t2) : (!accfg.token<"acc0">) -> ()
    scf.yield %y : i32
  }
  %s3 = accfg.setup "acc0" to ("A" = %r : i32, "B" = %y : i32) : !accfg.state<"acc0">
  %t3 = "accfg.launch"(%s3) <{param_names = [], accelerator = "acc0"}> : (!accfg.state<"acc0">) -> !accfg.token<"acc0">
  "accfg.await"(%t3) : (!accfg.token<"acc0">) -> ()
  func.return
}
"""
EXTRA_INFO = {"params": [("%x", "i32", "val"), ("%y", "i32", "val"), ("%z", "i32", "val"), ("%c", "i1", "cond"),
                         ("%lb", "index", "lb"), ("%ub", "index", "ub"), ("%st", "index", "step")], "loops": 1, "ifs": 1}

N = "/verif/notes/"
PROBES = [
    (N + "probe_c01_two_config_loop.mlir", "two_cfg", [[7, 9, 11, 0, 0, 1], [7, 9, 11, 0, 1, 1], [7, 9, 11, 2, 9, 3]]),
    (N + "probe_c07_zero_trip.mlir", "zt", [[7, 9, 0, 0, 1], [7, 9, 0, 1, 1], [7, 9, 2, 7, 2]]),
    (N + "probe_c07_nested_effects.mlir", "ifcall", [[7, 9, 0], [7, 9, 1]]),
    (N + "probe_c07_nested_effects.mlir", "forcall", [[7, 9, 0, 0, 1], [7, 9, 0, 2, 1]]),
    (N + "probe_c01_hoist_nested.mlir", "hoist_nested", [[7, 9, 0, 0], [7, 9, 1, 0], [7, 9, 0, 1], [7, 9, 1, 1]]),
]
# already threaded IR given to accfg-dedup alone (its real input; re-running accfg-trace-states on it is C07's
# known finding F42): a launch nested in a later scf.if uses the state an scf.if yields, then a new setup follows
PROBES_THREADED = [
    (N + "probe_c01_hoist_launch_nested.mlir", "hoist_launch_nested", [[7, 9, 0, 0], [7, 9, 1, 0], [7, 9, 0, 1], [7, 9, 1, 1]]),
]
_STRICT = set()


def _cfg(i):
    c = accir.GenCfg()
    if i % 3 == 1:
        c.p_if = 0.3
        c.p_else = 0.9
    if i % 4 == 2:
        c.launch_fields = True
    if i % 5 == 3:
        c.p_call = 0.25
    if i % 4 == 3:
        c.p_prethreaded = 0.5
    if i % 3 == 2:
        c.p_repeat = 0.6
    if i % 6 == 0:
        c.n_accs = 1
        c.max_fields = 2
        c.n_vals = 2       # few values: many redundant fields
    if i % 5 == 4:
        c.p_if = 0.35      # scf.if ops that also yield an i32 which the following setup uses (F22b)
        c.p_if_result = 0.6
    return c


def _loop_inputs(rng, info):
    """one random input + trip counts 0, 1, 2, 3 for every loop (PullSetupOpsOutOfLoops has no theorem: every
    program with a loop is run with zero, one, two and several iterations)"""
    ins = [accir.gen_inputs(rng, info)]
    for sty in ("zero", "one", "two", "many") if info.get("loops") else ("zero",):
        ins.append(accir.gen_inputs(rng, info, sty))
    return ins


def _programs(ctx, n, tag, want_steps):
    """yield (text, fn, inputs, Staged)"""
    out = []
    st = AC.Staged(EXTRA, want_steps=want_steps)
    out.append((EXTRA, "f", _loop_inputs(ctx.rng, EXTRA_INFO) + [accir.gen_inputs(ctx.rng, EXTRA_INFO)], st))
    out.append((IFRES, "f", [[7, 9, 0], [7, 9, 1]], AC.Staged(IFRES, want_steps=want_steps)))
    for i in range(n):
        text, info = accir.gen_module(ctx.rng, _cfg(i))
        out.append((text, "f", _loop_inputs(ctx.rng, info), AC.Staged(text, want_steps=want_steps)))
    return out


_FC = {}
_INS: dict = {}


def _filecheck_functions(ctx, want_steps):
    """the functions of acc-dedup.mlir (already threaded by hand): dedup only"""
    if "fc" in _FC:
        return _FC["fc"]
    out = []
    _FC["fc"] = out
    want_steps = True
    path = os.path.join(str(ctx.repo), "tests/filecheck/transforms/acc-dedup.mlir")
    try:
        text = open(path).read()
        mod = accir.parse(text)
        from xdsl.dialects import func
        fns = [op.sym_name.data for op in mod.body.block.ops if isinstance(op, func.FuncOp) and op.body.blocks]
    except Exception as e:
        ctx.notes.append(f"acc-dedup.mlir not usable: {e!r}")
        return out
    for fn in fns:
        out.append((text, fn, AC.Staged(text, fn, want_steps=want_steps, trace=False)))
    return out


_SUSPECTS: list = []


# ---------------------------------------------------------------- L1
def correspondence(ctx):
    dis = []
    items = _programs(ctx, ctx.n(14, 300), "L1", True)
    _INS.update({text: ins for text, fn, ins, st in items})
    steps = []
    for text, fn, ins, st in items:
        if st.error:
            if st.error[0] == "crash":
                dis.append({"name": "L1:pass-crash", "text": text, "error": st.error[1]})
            continue
        for s in st.steps:
            steps.append((s, text))
    for text, fn, st in _filecheck_functions(ctx, True):
        if st.error:
            ctx.notes.append(f"acc-dedup.mlir @{fn}: {st.error}")
            continue
        for s in st.steps:
            steps.append((s, f"acc-dedup.mlir @{fn}"))
    for s, text in steps:
        ctx.count({"pattern": s[0], "target": s[1]}, True, s[0] + json.dumps(s[2], sort_keys=True), s[0])
    shards = AC.shard(steps, 8)
    texts = []
    for sh in shards:
        texts.append(AC.HEADER_D + "Definition cases : list (rule * tbl * list val * val * prog * prog) := "
                     + accir._l(AC.step_case(s) for s, _ in sh) + ".\n"
                     "Eval vm_compute in failing (fun c => match c with (r, t, fr, tg, b, a) => step_ok r t fr tg b a end) cases.\n"
                     "Eval vm_compute in failing (fun c => match c with (r, t, fr, tg, b, a) => match r with\n"
                     "  | RSimplify => simplify_g_cert t fr tg b a | RMerge => merge_cert fr tg b a\n"
                     "  | RHoist => hoist_cert fr tg b a | RElide => elide_g_cert tg b a | RPull => pull_cert fr tg b a end end) cases.\n"
                     "Eval vm_compute in failing (fun c => match c with (r, t, fr, tg, b, a) => match r with RPull => pull_covered fr tg b | _ => true end end) cases.\n")
    res = vlib.coq_eval_many("c01l1_", texts, timeout=900)
    for sh, (ok, out) in zip(shards, res):
        lists = vlib.parse_all_eval_lists(out)
        if not ok or len(lists) != 3:
            dis.append({"name": "L1:cases-file", "detail": out[-1500:]})
            continue
        # pull rewrites applied mid-pipeline to a program that is no longer in full-field form are outside
        # C01_pull_rule (L1 model correspondence + L2 only); those applied to a full-field program are covered
        ctx.extra["pull_rewrites_outside_C01_pull_rule(not full-field at that point)"] = \
            ctx.extra.get("pull_rewrites_outside_C01_pull_rule(not full-field at that point)", 0) + len(lists[2])
        ctx.extra["pull_rewrites_total"] = ctx.extra.get("pull_rewrites_total", 0) + sum(1 for s_, _ in sh if s_[0] == "PullSetupOpsOutOfLoops")
        for idx in lists[0]:
            s, text = sh[idx]
            dis.append({"name": f"L1:{s[0]}", "target": s[1], "text": text, "coq_case": AC.step_case(s)[:1500]})
        for idx in lists[1]:
            s, text = sh[idx]
            dis.append({"name": "L1:rewrite-outside-its-theorem(guarded rule != real result, or a decidable hypothesis of C01_<rule>_rule fails)", "target": s[1], "text": text})
    # programs on which model and code disagree are searched first by L2
    _SUSPECTS[:] = [d["text"] for d in dis if d.get("text") in _INS][:24]
    return dis


# ---------------------------------------------------------------- L2
ORC = ("Definition orc_b (sd : Z) : oracle := mkOracle (o_adv (test_oracle sd))\n"
       "  (fun n g i ar => Z.modulo (Z.of_nat n + Z.of_nat g + sd) 2) (o_pure (test_oracle sd)).\n")


def _l2(items, deep):
    """items: (text, fn, ins, st, from_traced). Trace comparison original vs deduplicated."""
    fails = []
    live = []
    for it in items:
        st = it[3]
        if st.error:
            if st.error[0] == "crash":
                fails.append({"what": "pass-crash", "text": it[0], "fn": it[1], "error": st.error[1], "klass": None})
            continue
        live.append(it)
    shards = AC.shard(live, 8)
    texts = []
    seeds = "[1; 2]" if deep else "[1]"
    for sh in shards:
        cs = []
        for (text, fn, ins, st, from_traced) in sh:
            p0 = st.traced if from_traced else st.before
            cs.append(f"({accir.to_coq(p0)}, {accir.to_coq(st.after)}, {accir._l(accir.zlist(x) for x in ins)})")
        texts.append(AC.HEADER_D + ORC + f"Definition cases : list (prog * prog * list (list Z)) := {accir._l(cs)}.\n"
                     "Definition ok (c : prog * prog * list (list Z)) := match c with (p0, p2, ins) =>\n"
                     f"  forallb (fun a => forallb (fun sd => trace_sim_b (run (test_oracle sd) p0 a) (run (test_oracle sd) p2 a)\n"
                     f"     && trace_sim_b (run (orc_b sd) p0 a) (run (orc_b sd) p2 a)) {seeds}) ins end.\n"
                     "Eval vm_compute in failing ok cases.\n"
                     "Eval vm_compute in failing (fun c => match c with (p0, p2, ins) => full_field_form p0 end) cases.\n")
    res = vlib.coq_eval_many("c01l2_", texts, timeout=900)
    for sh, (ok, out) in zip(shards, res):
        lists = vlib.parse_all_eval_lists(out)
        if not ok or len(lists) != 2:
            fails.append({"what": "cases-file", "detail": out[-1500:], "klass": None})
            continue
        not_ff = set(lists[1])
        for idx in lists[0]:
            text, fn, ins, st, from_traced = sh[idx]
            # known-finding class F23: the ORIGINAL program is not in the full-field lowering form
            # (a loop-free strict probe cannot be F23, which is a hoist in front of a loop)
            klass = "not_full_field_setups" if idx in not_ff and text not in _STRICT else None
            what = "dedup-changed-what-a-launch-observes" + ("(not full-field form)" if klass else "")
            fails.append({"what": what, "text": text, "fn": fn, "inputs": ins,
                          "from_traced": from_traced, "_st": st, "klass": klass})
    return fails


def _explain(st, ins, from_traced):
    p0 = st.traced if from_traced else st.before
    src = (AC.HEADER_D + ORC + f"Definition p0 := {accir.to_coq(p0)}.\nDefinition p2 := {accir.to_coq(st.after)}.\n"
           f"Definition ins := {accir._l(accir.zlist(x) for x in ins)}.\n"
           "Eval vm_compute in map (fun a => trace_sim_b (run (test_oracle 1) p0 a) (run (test_oracle 1) p2 a) && trace_sim_b (run (orc_b 1) p0 a) (run (orc_b 1) p2 a)) ins.\n"
           "Eval vm_compute in map (fun a => map show_event (run (test_oracle 1) p0 a)) ins.\n"
           "Eval vm_compute in map (fun a => map show_event (run (test_oracle 1) p2 a)) ins.\n")
    ok, out = vlib.coq_eval("c01x", src)
    return {"coq_output(per input: ok?, original trace, optimised trace)": out[-4000:],
            "fields": st.names.fields, "accs": st.names.accs, "optimised_ir": getattr(st, "after_text", "")}


def search(ctx, deep=False):
    n = ctx.n(30, 600) * (3 if deep else 1)
    items = []
    for path, fn, ins in PROBES:
        text = open(path).read()
        items.append((text, fn, ins, AC.Staged(text, fn), False))
        ctx.count({"probe": path, "fn": fn}, True, path + fn, "probe")
    for path, fn, ins in PROBES_THREADED:
        text = open(path).read()
        _STRICT.add(text)
        items.append((text, fn, ins, AC.Staged(text, fn, trace=False), False))
        ctx.count({"probe": path, "fn": fn, "threaded": True}, True, path + fn, "probe")
    for text in dict.fromkeys(_SUSPECTS):
        items.append((text, "f", _INS[text] * 2, AC.Staged(text), False))
    for text, fn, ins, st in _programs(ctx, n, "L2", False):
        items.append((text, fn, ins, st, False))
        for a in ins:
            ctx.count({"L2": text[:120], "input": a}, True, text + str(a), "L2")
    for text, fn, st in _filecheck_functions(ctx, False):
        if not st.error:
            k = len(st.traced["params"])
            items.append((text, fn, [[3 + 5 * j for j in range(k)], [100 - j for j in range(k)]], st, True))
            ctx.count({"filecheck": fn}, True, "fc" + fn, "filecheck")
    fails = _l2(items, deep)
    seen, out = set(), []
    # report a semantic failure (concrete runtime input) before loud failures of the pass
    fails.sort(key=lambda f: 0 if f["what"] == "dedup-changed-what-a-launch-observes" else 1)
    fails = [f for f in fails if f.get("klass") is None] + [f for f in fails if f.get("klass") is not None]
    for f in fails:
        if f["what"] not in seen:
            seen.add(f["what"])
            st = f.pop("_st", None)
            if st is not None:
                f["detail"] = _explain(st, f["inputs"], f["from_traced"])
            out.append(f)
    return out


def replay_known(ctx, entry):
    w = entry["witness"]
    text = open(w["file"]).read()
    st = AC.Staged(text, w["fn"])
    fails = _l2([(text, w["fn"], w["inputs"], st, False)], False)
    return any(f.get("klass") == entry["class"] for f in fails)


def replay(ctx, obj):
    f = obj.get("failure")
    if not f or "text" not in f:
        print("no failing input recorded; broken obligations:", json.dumps(obj.get("no_longer_checks"), indent=1)[:3000])
        return 1
    st = AC.Staged(f["text"], f.get("fn", "f"))
    if st.error:
        print("pass failed:", st.error)
        return 1
    print(st.after_text)
    d = _explain(st, f.get("inputs") or [], f.get("from_traced", False))
    for k, v in d.items():
        print(k, ":", v if isinstance(v, str) else json.dumps(v))
    fails = _l2([(f["text"], f.get("fn", "f"), f.get("inputs") or [], st, f.get("from_traced", False))], True)
    for x in fails:
        x.pop("_st", None)
        print("FAIL", x["what"])
    return 1 if fails else 0
