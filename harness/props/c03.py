"""C03 — scheduling preserves the iteration space.

(H) hand model coq/Model/C03Schedule.v (+ the matcher/checks of Model/C16Matcher.v for the
backtracking search), L1 exact correspondence of every helper and of
list(scheduler_backtrack(...)) / scheduler(...), L2 image-multiset check on the implementation.
"""
from __future__ import annotations

import vlib
from vlib import coqlist, natlit, optz, zlist, zlit

from props import dartlib as D

PROPERTY = "C03"
MODEL_TARGETS = ["Model/C03Schedule.vo", "Model/C16Matcher.vo"]
RULE = ("schedules: 0-5 dims, 1-4 operands, 0-3 results per operand, matrix entries -3..3 (unit / sparse / tiled / "
        "dense styles), offsets, bounds from {1,2,3,4,6,8,12,16}; templates: 1-4 dims, bounds from {None,1,2,3,4,8,0}; "
        "helper arguments include the error cases (dim 0, dim > num_dims, tile 0 / negative / non-divisor); backtracking "
        "cases are built so that a share of them match (template derived from the schedule's own inner columns). "
        "A case is non-trivial when the operation changes the schedule (or the search yields >= 1 schedule); "
        "distinct = distinct (input, operation, arguments)")
TRUSTED_BASE = [
    "Coq 8.16.1 kernel + vm_compute (no native_compute)",
    "hand model coq/Model/C03Schedule.v of snaxc/ir/dart/{access_pattern,affine_transform,scheduler}.py, tied by L1 (this harness)",
    "harness/props/dartlib.py: structural converter (bounds, columns of A, b) and Coq-literal printer; generators",
    "harness/xdsl_compat.py; numpy (matmul, fancy indexing, linalg.svd); xDSL 0.70 AffineMap.eval",
]
ASSUMPTIONS = [
    "the image theorems quantify over well-formed schedules (every operand has the same positive bounds and as many "
    "columns as bounds: the class invariant of Schedule as built by the dart-scheduler pass)",
    "numpy int64 overflow is not modelled (Z in the model)",
    "exceptions raised by an extra check or by the matcher (0-dim template) are outside the model: matcher/checks are total boolean parameters",
]


# ---------------------------------------------------------------- L1
def _helper_cases(ctx, n):
    rng = ctx.rng
    cases = {k: [] for k in ("rot", "tile", "add", "inner", "canon", "clear", "tinner", "tcanon", "tclear", "image")}
    meta = {k: [] for k in cases}

    def osched(x):
        return D.coq_opt(x, D.coq_sched)

    def otmpl(x):
        return D.coq_opt(x, D.coq_tmpl)

    for i in range(n):
        sp = D.gen_schedule_plain(rng, max_points=600)
        s = D.mk_schedule(sp)
        S = D.coq_sched(s)
        nd = len(sp[0][0])
        # rotate
        for d in {rng.randint(0, nd + 1), rng.randint(1, max(1, nd))}:
            r = D.guarded(lambda: s.rotate(d))
            cases["rot"].append(f"({natlit(d)}, {S}, {osched(r)})")
            meta["rot"].append(("rotate", sp, d))
            ctx.count({"op": "rotate", "dim": d, "schedule": sp}, r is not None and d >= 2, f"rot{sp}{d}", "rotate")
        # tile_dim
        d = rng.randint(0, nd)
        bd = sp[0][0][d] if d < nd else 4
        t = rng.choice([0, 1, 2, 2, 3, 4, -2, bd, bd + 1] + [k for k in range(1, bd + 1) if bd % k == 0])
        r = D.guarded(lambda: s.tile_dim(d, t))
        cases["tile"].append(f"({natlit(d)}, {zlit(t)}, {S}, {osched(r)})")
        meta["tile"].append(("tile_dim", sp, d, t))
        ctx.count({"op": "tile_dim", "dim": d, "t": t, "schedule": sp}, r is not None, f"tile{sp}{d}{t}", "tile_dim")
        # add_dim
        r = D.guarded(lambda: s.add_dim())
        cases["add"].append(f"({S}, {osched(r)})")
        meta["add"].append(("add_dim", sp))
        ctx.count({"op": "add_dim", "schedule": sp}, True, f"add{sp}", "add_dim")
        # inner_dims
        k = rng.randint(0, nd + 1)
        r = D.guarded(lambda: s.inner_dims(k))
        cases["inner"].append(f"({natlit(k)}, {S}, {osched(r)})")
        meta["inner"].append(("inner_dims", sp, k))
        ctx.count({"op": "inner_dims", "k": k, "schedule": sp}, r is not None and 0 < k < nd, f"inner{sp}{k}", "inner_dims")
        # canonicalize
        r = D.guarded(lambda: s.canonicalize())
        cases["canon"].append(f"({S}, {osched(r)})")
        meta["canon"].append(("canonicalize", sp))
        ctx.count({"op": "canonicalize", "schedule": sp}, 1 in sp[0][0], f"canon{sp}", "canonicalize")
        # clear_unused_dims (default and custom bounds)
        custom = None
        if rng.random() < 0.4:
            custom = tuple(rng.choice([1, 1, 2, 3, 0]) for _ in range(rng.choice([nd, nd, nd, nd + 1, max(0, nd - 1)])))
        r = D.guarded(lambda: s.clear_unused_dims(custom))
        cc = "None" if custom is None else f"(Some {zlist(custom)})"
        cases["clear"].append(f"({cc}, {S}, {osched(r)})")
        meta["clear"].append(("clear_unused_dims", sp, custom))
        ctx.count({"op": "clear_unused_dims", "custom": custom, "schedule": sp}, 1 in (custom or sp[0][0]), f"clear{sp}{custom}", "clear_unused_dims")
        # templates
        tp = D.gen_template_plain(rng)
        T = D.mk_template(tp)
        TT = D.coq_tmpl(T)
        td = len(tp[0][0])
        k = rng.randint(0, td + 1)
        r = D.guarded(lambda: T.inner_dims(k))
        cases["tinner"].append(f"({natlit(k)}, {TT}, {otmpl(r)})")
        meta["tinner"].append(("Template.inner_dims", tp, k))
        r = D.guarded(lambda: T.canonicalize())
        cases["tcanon"].append(f"({TT}, {otmpl(r)})")
        meta["tcanon"].append(("Template.canonicalize", tp))
        r = D.guarded(lambda: T.clear_unused_dims())
        cases["tclear"].append(f"({TT}, {otmpl(r)})")
        meta["tclear"].append(("Template.clear_unused_dims", tp))
        ctx.count({"op": "template helpers", "template": tp}, True, f"tmpl{tp}{k}", "template_helpers")
        # the specification function itself: image computed by AffineTransform.eval
        if i % 4 == 0:
            sp2 = D.gen_schedule_plain(rng, max_points=48)
            s2 = D.mk_schedule(sp2)
            img = D.image_of(s2)
            cases["image"].append(f"({D.coq_sched(s2)}, {D.coq_image(img)})")
            meta["image"].append(("image", sp2))
            ctx.count({"op": "image", "schedule": sp2, "points": len(img)}, len(img) > 1, f"img{sp2}", "image")
    tests = {
        "rot": "fun c : nat * sched * option sched => match c with (d, s, r) => option_eqb sched_eqb (s_rotate d s) r end",
        "tile": "fun c : nat * Z * sched * option sched => match c with (d, t, s, r) => option_eqb sched_eqb (s_tile d t s) r end",
        "add": "fun c : sched * option sched => option_eqb sched_eqb (s_add_dim (fst c)) (snd c)",
        "inner": "fun c : nat * sched * option sched => match c with (k, s, r) => option_eqb sched_eqb (s_inner k s) r end",
        "canon": "fun c : sched * option sched => option_eqb sched_eqb (s_canon (fst c)) (snd c)",
        "clear": "fun c : option (list Z) * sched * option sched => match c with (b, s, r) => option_eqb sched_eqb (s_clear b s) r end",
        "tinner": "fun c : nat * tmpl * option tmpl => match c with (k, s, r) => option_eqb tmpl_eqb (t_inner k s) r end",
        "tcanon": "fun c : tmpl * option tmpl => option_eqb tmpl_eqb (t_canon (fst c)) (snd c)",
        "tclear": "fun c : tmpl * option tmpl => option_eqb tmpl_eqb (t_clear None (fst c)) (snd c)",
        "image": "fun c : sched * list (list (list Z)) => list_eqb (list_eqb (list_eqb Z.eqb)) (image (fst c)) (snd c)",
    }
    return cases, meta, tests


def _run_cases(name, imports, cases, meta, tests, timeout=900, chunk=150, nfiles=6):
    """cases are cut into chunks; the chunks are spread over at most `nfiles` throw-away files compiled
    in parallel (each file pays the Require once)."""
    jobs = []
    for k in tests:
        cs = cases.get(k) or []
        for off in range(0, len(cs), chunk):
            part = cs[off:off + chunk]
            text = (f"Definition cases_{k}_{off} := {coqlist(part)}.\n"
                    f"Eval vm_compute in failing ({tests[k]}) cases_{k}_{off}.\n")
            jobs.append((k, off, text))
    jobs.sort(key=lambda j: -len(j[2]))
    shards = [[] for _ in range(min(nfiles, max(1, len(jobs))))]
    sizes = [0] * len(shards)
    for j in jobs:
        i = sizes.index(min(sizes))
        shards[i].append(j)
        sizes[i] += len(j[2])
    results = vlib.coq_eval_many(name, [imports + "\n" + "".join(j[2] for j in sh) for sh in shards], timeout=timeout, par=len(shards))
    dis = []
    for sh, (ok, out) in zip(shards, results):
        lists = vlib.parse_all_eval_lists(out)
        if not ok or len(lists) != len(sh):
            dis.append({"name": f"cases-file:{name}", "detail": out[-2000:]})
            continue
        for (k, off, _), bad in zip(sh, lists):
            for idx in bad:
                dis.append({"name": f"L1:{k}", "case": meta[k][off + idx], "coq_case": cases[k][off + idx][:800]})
    return dis


def _backtrack_cases(ctx, n):
    from snaxc.ir.dart.scheduler import scheduler
    rng = ctx.rng
    cases = {"bt": [], "sched": []}
    meta = {"bt": [], "sched": []}
    for i in range(n):
        tp, sp, fam = D.gen_sched_case(rng)
        T, s = D.mk_template(tp), D.mk_schedule(sp)
        py, cq, cdesc = D.gen_checks(rng, len(sp))
        r = D.run_backtrack(T, s, py)
        if r is None:
            continue
        out, raised = r
        TT, S = D.coq_tmpl(T), D.coq_sched(s)
        cases["bt"].append(f"({TT}, {S}, {cq}, ({coqlist(D.coq_sched(x) for x in out)}, {vlib.boollit(raised)}))")
        meta["bt"].append(("scheduler_backtrack", tp, sp, cdesc, fam))
        ctx.count({"op": "scheduler_backtrack", "family": fam, "template": tp, "schedule": sp, **cdesc, "results": len(out)},
                  len(out) > 0, f"bt{tp}{sp}{cdesc}", f"backtrack-{fam}-{'yield' if out else 'empty'}")
        if i % 3 == 0:
            idx = rng.choice([None, None, 0, 1, -1, len(out), 2])
            try:
                res = scheduler(T, s, extra_checks=py, schedule_idx=idx)
            except (StopIteration, RuntimeError) + D.ERRS:
                res = None
            cases["sched"].append(f"({TT}, {S}, {cq}, {optz(idx)}, {D.coq_opt(res, D.coq_sched)})")
            meta["sched"].append(("scheduler", tp, sp, cdesc, idx))
            ctx.count({"op": "scheduler", "idx": idx, "template": tp, "schedule": sp, **cdesc}, res is not None, f"sc{tp}{sp}{cdesc}{idx}", "scheduler")
    chk = "list (tmpl -> sched -> bool)"
    tests = {
        "bt": f"fun c : tmpl * sched * {chk} * res => match c with (T, s, ch, r) => "
              "let r' := backtrack matches ch T s in list_eqb sched_eqb (fst r') (fst r) && Bool.eqb (snd r') (snd r) end",
        "sched": f"fun c : tmpl * sched * {chk} * option Z * option sched => match c with (T, s, ch, i, r) => "
                 "option_eqb sched_eqb (scheduler matches ch T s i) r end",
    }
    return cases, meta, tests


def correspondence(ctx):
    dis = []
    cases, meta, tests = _helper_cases(ctx, ctx.n(120, 1500))
    c2, m2, t2 = _backtrack_cases(ctx, ctx.n(240, 3000))
    cases.update(c2), meta.update(m2), tests.update(t2)
    c3, m3, t3 = _pass_cases(ctx, ctx.n(20, 250))
    cases.update(c3), meta.update(m3), tests.update(t3)
    dis += _run_cases("c03", "From Snax Require Import Base.Prelude Model.C03Schedule Model.C16Matcher.", cases, meta, tests,
                      nfiles=ctx.n(3, 12))
    return dis


# ---------------------------------------------------------------- L2: the property on the implementation
def check_helpers(sp, rng):
    """image multiset before/after every elementary transformation, on the implementation only."""
    s = D.mk_schedule(sp)
    base = D.image_of(s)
    nd = len(sp[0][0])
    fails = []

    def cmp(what, args, r):
        if r is None:   # a valid argument on a valid schedule must not raise: the iterations would be lost
            fails.append({"what": what, "args": args, "schedule": sp, "klass": None, "detail": {"result": "raised"}})
            return
        img = D.image_of(r)
        if not D.same_multiset(base, img):
            fails.append({"what": what, "args": args, "schedule": sp, "klass": None,
                          "detail": {"result": D.plain(r), "before_points": len(base), "after_points": len(img)}})

    for d in range(1, nd + 1):
        cmp("rotate", [d], D.guarded(lambda: s.rotate(d)))
    for d in range(nd):
        bd = sp[0][0][d]
        for t in [k for k in range(1, bd + 1) if bd % k == 0]:
            cmp("tile_dim", [d, t], D.guarded(lambda: s.tile_dim(d, t)))
    cmp("add_dim", [], D.guarded(lambda: s.add_dim()))
    cmp("clear_unused_dims", [], D.guarded(lambda: s.clear_unused_dims()))
    cmp("canonicalize", [], D.guarded(lambda: s.canonicalize()))
    return fails


def check_backtrack(tp, sp, cdesc):
    """every schedule yielded by the real scheduler_backtrack (and the one scheduler() returns) has the image
    multiset of the input, enumerated with the implementation's own eval."""
    from snaxc.ir.dart.scheduler import is_memory_flexible_enough, is_pure_output_stationary, scheduler
    T, s = D.mk_template(tp), D.mk_schedule(sp)
    py = []
    if cdesc["checks"] in ("pos", "both"):
        py.append(is_pure_output_stationary)
    if cdesc["checks"] in ("mem", "both"):
        py.append(lambda t, x: is_memory_flexible_enough(t, x, cdesc["sizes"]))
    r = D.run_backtrack(T, s, py, cap=150)
    if r is None:
        return [], 0
    out, _ = r
    base = D.image_of(s)
    fails = []
    for idx, x in enumerate(out):
        img = D.image_of(x)
        if img is None or not D.same_multiset(base, img):
            fails.append({"what": "backtrack_image", "template": tp, "schedule": sp, "checks": cdesc, "klass": None,
                          "detail": {"result_index": idx, "result": D.plain(x), "before_points": len(base),
                                     "after_points": None if img is None else len(img)}})
            break
    if out:
        try:
            first = scheduler(T, s, extra_checks=py)
            if not D.same_multiset(base, D.image_of(first)):
                fails.append({"what": "scheduler_image", "template": tp, "schedule": sp, "checks": cdesc, "klass": None,
                              "detail": {"result": D.plain(first)}})
        except Exception as e:  # the generator yielded, so next() must succeed
            fails.append({"what": "scheduler_raises", "template": tp, "schedule": sp, "checks": cdesc, "klass": None,
                          "detail": repr(e)[:200]})
    return fails, len(out)


# ---- the affine-map view of a pattern (what the pass writes into dart.schedule) -----------------------
def check_affine_view(sp, rng):
    """AffineTransform -> AffineMap -> AffineTransform is the identity and both evaluate alike."""
    import numpy as np
    from snaxc.ir.dart.affine_transform import AffineTransform
    fails = []
    for (bs, rows, b) in sp:
        at = D.mk_at(rows, b, len(bs))
        try:
            m = at.to_affine_map()
            back = AffineTransform.from_affine_map(m)
        except Exception as e:
            fails.append({"what": "affine_view_raises", "schedule": sp, "klass": None, "detail": repr(e)[:200]})
            break
        pts = [[0] * len(bs), [rng.randint(0, 5) for _ in bs], [1] * len(bs)]
        bad = (back != at) or any(list(m.eval(x, [])) != [int(v) for v in at.eval(np.array(x, dtype=np.int_))] for x in pts)
        if bad:
            fails.append({"what": "affine_view", "schedule": sp, "klass": None,
                          "detail": {"A": rows, "b": b, "map": str(m), "back_A": back.A.tolist(), "back_b": back.b.tolist()}})
            break
    return fails


# ---- the pass: dart.operation vs dart.schedule around `dart-scheduler` -------------------------------
_GEMM = """
func.func @{name}(%arg0 : memref<{m}x{ka}xi8>, %arg1 : memref<{k}x{n}xi8, strided<[1, {k}]>>, %arg2 : memref<{m}x{n}xi32>) {{
  %0 = arith.constant 0 : i32
  "dart.operation"(%arg0, %arg1, %arg2) <{{patterns = [affine_map<({dims}) -> ({pa})>, affine_map<({dims}) -> ({pb})>, affine_map<({dims}) -> ({pc})>], accelerator = "snax_gemmx", operandSegmentSizes = array<i32: 2, 1>}}> ({{
  ^bb0(%1 : !dart.stream<i8>, %2 : !dart.stream<i8>, %3 : !dart.stream<i32>):
    %4 = "dart.generic"(%1, %2, %0, %0) <{{library_call = "snax_gemmx"}}> ({{
    ^bb1(%arg3 : i8, %arg4 : i8, %arg5 : i32, %arg6 : i32, %arg7 : i32):
      %5 = kernel.qmac %arg3, %arg4 zp_lhs : %arg5 zp_rhs : %arg6 : i8, i8, i32, i32 -> i32
      dart.yield %5 : i32
    }}) : (!dart.stream<i8>, !dart.stream<i8>, i32, i32) -> !dart.stream<i32>
    dart.yield %4 : !dart.stream<i32>
  }}) : (memref<{m}x{ka}xi8>, memref<{k}x{n}xi8, strided<[1, {k}]>>, memref<{m}x{n}xi32>) -> ()
  func.return
}}
"""


def sample_affine_map(mp):
    """(rows of A, b) of a linear AffineMap, by AffineMap.eval at 0 and the unit points; asserts linearity on two more points"""
    nd = mp.num_dims
    zero = [0] * nd
    b = [int(v) for v in mp.eval(zero, [])]
    cols = []
    for j in range(nd):
        e = list(zero)
        e[j] = 1
        cols.append([int(v) - bb for v, bb in zip(mp.eval(e, []), b)])
    rows = [[cols[j][i] for j in range(nd)] for i in range(len(b))]
    for x in ([2] * nd, list(range(1, nd + 1))):
        assert [sum(r[j] * x[j] for j in range(nd)) + bb for r, bb in zip(rows, b)] == [int(v) for v in mp.eval(x, [])], "non-linear affine map"
    return rows, b


def run_pass(layers):
    """parse the module, run insert-accfg-op + the real dart-scheduler pass; per dart.operation returns
    (template, plain schedule of the operation, element sizes, plain emitted dart.schedule or None)"""
    from typing import cast
    from xdsl.parser import Parser
    from snaxc.dialects import dart
    from snaxc.tools.snax_opt_main import SNAXOptMain
    from snaxc.transforms.dart.dart_scheduler import DartSchedulerPass
    from snaxc.transforms.insert_accfg_op import InsertAccOp
    text = "".join(_GEMM.format(**l) for l in layers)
    xctx = SNAXOptMain(args=[__file__]).ctx
    mod = Parser(xctx, text).parse_module()
    InsertAccOp("snax_gemmx").apply(xctx, mod)
    before = []
    for op in mod.walk():
        if isinstance(op, dart.OperationOp):
            acc = xctx.get_acc(op.accelerator.data)
            bounds = [int(b) for b in op.get_static_pattern_bounds()]
            pats = [(list(bounds),) + sample_affine_map(p.data) for p in op.patterns.data]
            sizes = [int(o.type.element_type.size) for o in op.operands]
            before.append((acc.get_template(op), pats, sizes))
    DartSchedulerPass().apply(xctx, mod)
    mod.verify()
    scheds = [op for op in mod.walk() if isinstance(op, dart.ScheduleOp)]
    after = []
    for op in scheds:
        bounds = [int(b.value.data) for b in op.bounds.data]
        after.append([(list(bounds),) + sample_affine_map(p.data) for p in op.patterns.data])
    if len(after) != len(before):
        after = [None] * len(before)
    return [(T, pats, sizes, a) for (T, pats, sizes), a in zip(before, after)]


def _pass_cases(ctx, n):
    """L1 at the pass: the dart.schedule emitted by the real pass == scheduler(template, canonicalize(schedule),
    [pure output stationary, memory flexible(element sizes)]) of the model"""
    rng = ctx.rng
    cases, meta = [], []
    for i in range(n):
        layers = gen_pass_module(rng)
        try:
            res = run_pass(layers)
        except Exception as e:
            ctx.notes.append(f"dart-scheduler pass raised on {layers}: {e!r}"[:300])
            cases.append("(([] : tmpl), ([] : sched), [], Some ([] : sched))")   # cannot agree with the model: reported as L1 disagreement
            meta.append(("dart-scheduler raised", layers, repr(e)[:200]))
            continue
        for k, (T, pats, sizes, emitted) in enumerate(res):
            s = D.mk_schedule(pats)
            em = "None" if emitted is None else f"(Some {D.coq_sched(D.mk_schedule(emitted))})"
            cases.append(f"({D.coq_tmpl(T)}, {D.coq_sched(s)}, {zlist(sizes)}, {em})")
            meta.append(("dart-scheduler", layers, k))
            ctx.count({"op": "dart-scheduler pass", "layers": layers, "op_index": k}, True, f"pass{layers}{k}", "pass-L1")
    test = ("fun c : tmpl * sched * list Z * option sched => match c with (T, s, z, r) => "
            "option_eqb sched_eqb (match s_canon s with Some s' => scheduler matches (pass_checks z) T s' None | None => None end) r end")
    return {"pass": cases}, {"pass": meta}, {"pass": test}


def gen_pass_module(rng):
    """1-3 quantised matmul layers for snax_gemmx: sizes from multiples of 8, iteration dims in a random order,
    optional constant offset in the A operand's reduction index."""
    layers = []
    for i in range(rng.choice([1, 1, 2, 2, 3])):
        m, n, k = (rng.choice([8, 16, 16, 24, 32]) for _ in range(3))
        perm = rng.sample(range(3), 3)        # iteration dim used for (m, n, k)
        off = rng.choice([0, 0, 0, 2, 1, -1])
        if layers and rng.random() < 0.6:     # same maps as the first layer, (usually) another shape
            perm, off = layers[0]["_perm"], layers[0]["_off"]
        dm, dn, dk = (f"d{q}" for q in perm)
        layers.append({"name": f"layer{i}", "m": m, "n": n, "k": k, "ka": k + abs(off) if off else k, "dims": "d0, d1, d2",
                       "pa": f"{dm}, {dk}" + (f" + {off}" if off > 0 else f" - {-off}" if off < 0 else ""),
                       "pb": f"{dk}, {dn}", "pc": f"{dm}, {dn}", "_perm": perm, "_off": off})
    return layers


def check_pass(layers):
    from collections import Counter
    from itertools import product as iproduct
    from xdsl.parser import Parser
    from snaxc.dialects import dart
    from snaxc.tools.snax_opt_main import SNAXOptMain
    from snaxc.transforms.dart.dart_scheduler import DartSchedulerPass
    from snaxc.transforms.insert_accfg_op import InsertAccOp

    def visits(bounds, maps):
        """multiset of operand-index tuples; the affine maps are sampled with AffineMap.eval at 0 and the unit
        points (they are linear), checked on two more points, then applied to the whole box with numpy"""
        import numpy as np
        nd = len(bounds)
        zero = [0] * nd
        cols = []
        for mp in maps:
            b = np.array(mp.eval(zero, []), dtype=np.int64)
            A = np.zeros((len(b), nd), dtype=np.int64)
            for j in range(nd):
                e = list(zero)
                e[j] = 1
                A[:, j] = np.array(mp.eval(e, []), dtype=np.int64) - b
            for x in ([2] * nd, list(range(1, nd + 1))):
                assert list(A @ np.array(x) + b) == list(mp.eval(x, [])), "non-linear affine map"
            cols.append((A, b))
        grid = np.indices(bounds).reshape(nd, -1).T if nd else np.zeros((1, 0), dtype=np.int64)
        allc = np.concatenate([grid @ A.T + b for (A, b) in cols], axis=1)
        uniq, cnt = np.unique(allc, axis=0, return_counts=True)
        return Counter({tuple(int(v) for v in u): int(c) for u, c in zip(uniq, cnt)})

    text = "".join(_GEMM.format(**l) for l in layers)
    xctx = SNAXOptMain(args=[__file__]).ctx
    mod = Parser(xctx, text).parse_module()
    InsertAccOp("snax_gemmx").apply(xctx, mod)
    refs = [(tuple(op.get_static_pattern_bounds()), [p.data for p in op.patterns.data])
            for op in mod.walk() if isinstance(op, dart.OperationOp)]
    # the iteration box of the ORIGINAL operation, stated independently of get_static_pattern_bounds() (which the pass
    # itself uses to build the initial schedule): iteration dim perm[0] runs over m, perm[1] over n, perm[2] over k
    if len(refs) == len(layers):
        for i, (l, (rb, _)) in enumerate(zip(layers, refs)):
            if "_perm" in l:
                want = [0, 0, 0]
                for q, size in zip(l["_perm"], (l["m"], l["n"], l["k"])):
                    want[q] = size
                if [int(b) for b in rb] != want:
                    return [{"what": "operation_bounds", "layers": layers, "klass": None,
                             "detail": {"op_index": i, "get_static_pattern_bounds": [int(b) for b in rb], "operand_shapes_imply": want}}]
    try:
        DartSchedulerPass().apply(xctx, mod)
        mod.verify()
    except Exception as e:
        return [{"what": "pass_raises", "layers": layers, "klass": None, "detail": repr(e)[:300]}]
    scheds = [op for op in mod.walk() if isinstance(op, dart.ScheduleOp)]
    if len(scheds) != len(refs):
        return [{"what": "pass_unscheduled", "layers": layers, "klass": None, "detail": {"operations": len(refs), "schedules": len(scheds)}}]
    for i, ((rb, rm), op) in enumerate(zip(refs, scheds)):
        bounds = tuple(b.value.data for b in op.bounds.data)
        maps = [p.data for p in op.patterns.data]
        if visits(rb, rm) != visits(bounds, maps):
            return [{"what": "pass_image", "layers": layers, "klass": None,
                     "detail": {"op_index": i, "operation_bounds": list(rb), "operation_patterns": [str(x) for x in rm],
                                "schedule_bounds": list(bounds), "schedule_patterns": [str(x) for x in maps]}}]
    return []


def search(ctx, deep=False):
    rng = ctx.rng
    n = ctx.n(120, 1500) * (3 if deep else 1)
    fails = []
    for i in range(n):
        sp = D.gen_schedule_plain(rng, max_points=400)
        fails += check_helpers(sp, rng)
        fails += check_affine_view(sp, rng)
        ctx.count({"L2": "helpers", "schedule": sp}, len(sp[0][0]) >= 2, f"l2h{sp}", "L2-helpers")
    for i in range(ctx.n(25, 300) * (2 if deep else 1)):
        layers = gen_pass_module(rng)
        fails += check_pass(layers)
        ctx.count({"L2": "pass", "layers": layers}, len(layers) > 1, f"l2p{layers}", "L2-pass")
    for i in range(ctx.n(250, 3000) * (3 if deep else 1)):
        tp, sp, fam = D.gen_sched_case(rng, max_points=400)
        _, _, cdesc = D.gen_checks(rng, len(sp))
        f, nres = check_backtrack(tp, sp, cdesc)
        fails += f
        ctx.count({"L2": "backtrack", "template": tp, "schedule": sp, **cdesc, "results": nres}, nres > 0,
                  f"l2b{tp}{sp}{cdesc}", f"L2-backtrack-{fam}")
    return _dedup(fails)


def _dedup(fails):
    seen, out = set(), []
    for f in fails:
        k = (f["what"], f["klass"])
        if k not in seen:
            seen.add(k)
            out.append(f)
    return out


def replay_known(ctx, entry):
    return False


def replay(ctx, obj):
    f = obj.get("failure")
    if not f:
        print("no failing input recorded; broken obligations:", obj.get("no_longer_checks"))
        return 1
    if "layers" in f:
        print("layers:", f["layers"])
        res = check_pass(f["layers"])
        for r in res:
            print("FAIL", r["what"], r["detail"])
        return 1 if res else 0
    sp = [(list(b), [list(r) for r in rows], list(bb)) for (b, rows, bb) in f["schedule"]]
    print("schedule:", sp)
    if f.get("what", "").startswith("affine_view"):
        res = check_affine_view(sp, ctx.rng)
    elif "template" in f:
        tp = [(list(b), [list(r) for r in rows], list(bb)) for (b, rows, bb) in f["template"]]
        print("template:", tp, "checks:", f["checks"])
        res, _ = check_backtrack(tp, sp, f["checks"])
    else:
        res = check_helpers(sp, ctx.rng)
    for r in res:
        print("FAIL", r["what"], r.get("args"), r["detail"])
    return 1 if res else 0
