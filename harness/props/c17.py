"""C17 — loop restructuring preserves the executed operation sequence.

(H) hand model coq/Model/C17Loop.v of
  snaxc/transforms/pipeline/pipeline_canonicalize_for.py  (ChangeForStep, MergeForLoops)
  snaxc/transforms/reuse_memref_allocs.py                 (LoopHoistPureOperations, MoveMemrefDims)

L1  every individual rewrite the real patterns perform on generated loop nests is recorded (the pattern
    classes' `match_and_rewrite` is wrapped in this process), the IR before/after is converted to the
    abstract loop IR, and Coq checks `canon (rewrite rule path before) = canon after`; at the fixpoint
    the model must not have an applicable rule either (guards agree in both directions).  For MoveMemrefDims the
    replacement the real pattern chose (read off the rewritten users of the dim) is compared with the model's size
    resolution at that position (`resolve_at`).  A pass that raises is a disagreement unless it is the deliberate
    refusal on the model's class `prog_has_refused_min`.
L2  the real IR before/after the whole pass is interpreted by the Coq trace semantics (vm_compute) on
    several run-time environments; the traces of side-effecting ops must be equal and the result must
    be well-formed SSA.  No model of the rewrites is involved.
"""
from __future__ import annotations

import json

import vlib
from vlib import coqlist, zlit

PROPERTY = "C17"
MODEL_TARGETS = ["Model/C17Loop.vo", "Model/C17MoveDim.vo"]
RULE = ("func.func bodies with scf.for nests of depth <= 3; bounds/steps: index constants 0..12 (also defined "
        "inside outer bodies), occasionally negative, zero, or a function argument; side-effecting ops "
        "(test.op with a tag, func.call to an external function) with 0-3 operands placed anywhere; pure arith "
        "ops; for reuse-memref-allocs additionally memref.alloc / memref.dim / memref.subview / affine.min with "
        "sizes from constants, dims, induction variables and affine.min, incl. sizes that are dims living in an enclosing loop body "
        "with other uses (outerdim) and resolution chains through a dim kept in the loop (chain3).  A case is non-trivial when at least "
        "one rewrite changed the IR; distinct = distinct input programs")
TRUSTED_BASE = [
    "Coq 8.16.1 kernel + vm_compute (no native_compute)",
    "hand model coq/Model/C17Loop.v (IR, trace semantics, one function per rewrite pattern) + coq/Model/C17MoveDim.v (resolution at a path, refusal class), tied by L1/L2 (this harness)",
    "harness/props/c17.py: xDSL->abstract IR converter (structural), generators, Coq-literal printer; harness/xdsl_compat.py",
    "xDSL 0.70: parser, PatternRewriteWalker/GreedyRewritePatternApplier, is_side_effect_free, AffineMap.eval",
]
ASSUMPTIONS = [
    "index values are unbounded integers (no wrap-around of index arithmetic); arith.divui/remui are modelled for non-negative dividends",
    "scf.for with a non-positive step executes zero iterations (undefined behaviour in MLIR)",
    "loops without iter_args only (the patterns bail out on iter_args); scf.if and other region ops are not in the abstract IR",
    "buffers are observed through their sizes only: an opaque op receives the shape of a memref operand, not its identity or contents "
    "(hoisting an alloc makes all iterations share one buffer; contents of a fresh buffer are undefined)",
    "MoveMemrefDims: the size resolution is modelled (move_dim_value) and compared with the replacement the real pattern "
    "chose on every run (resolve_at); its IR surgery is the rule RMoveDim of the model (guarded: no affine.min, replacement dominates the loop), compared structurally by L1 on every real rewrite outside the affine.min case",
    "memref.store is an event and a heap entry, memref.load returns the value last stored at the address (buffers identified by the SSA name of their alloc / an identity per function argument; subviews share the buffer of their source, offsets and initial contents are not modelled).",
    "a pass that raises, or whose result does not verify / leaves the abstract IR, is a violation - except the deliberate "
    "RuntimeError('no constant value found') on the class prog_has_refused_min (Model/C17MoveDim.v), modelled as 'no rewrite'",
]

BASE = 3000  # canonical renumbering starts here (above every free name)


class Unsupported(Exception):
    pass


# ---------------------------------------------------------------------------------------------
# xDSL -> abstract IR (trusted, structural)


class Names:
    def __init__(self):
        self.ids = {}
        self.effs = {}
        self.free = []  # results of memref.load: free names (memory contents are not modelled)

    def v(self, val) -> int:
        k = id(val)
        if k not in self.ids:
            self.ids[k] = (len(self.ids), val)  # keep the value alive
        return self.ids[k][0]

    def eff(self, key) -> int:
        # id 0 is reserved for memref.store (STORE in Model/C17Loop.v: the event is also the heap entry)
        if key not in self.effs:
            self.effs[key] = len(self.effs) + 1
        return self.effs[key]


def nat(n):
    return f"{n}"  # the cases files open nat_scope; every Z literal carries %Z


def _lin(expr_map, idx, noperands):
    """affine expr -> (const, [(coef, operand index)]) ; raises Unsupported when not linear."""
    nd = expr_map.num_dims
    ns = expr_map.num_symbols

    def ev(pt):
        return expr_map.eval(pt[:nd], pt[nd:nd + ns])[idx]
    zero = [0] * noperands
    c = ev(zero)
    coefs = []
    for k in range(noperands):
        u = list(zero)
        u[k] = 1
        coefs.append(ev(u) - c)
    for pt in ([3, 5, 7, 11][:noperands] + [2] * max(0, noperands - 4), [-4, 9, 1, 6][:noperands] + [5] * max(0, noperands - 4)):
        if ev(list(pt)) != c + sum(a * b for a, b in zip(coefs, pt)):
            raise Unsupported("non-linear affine.min")
    return c, [(a, k) for k, a in enumerate(coefs) if a != 0]


def conv_block(block, nm: Names) -> list[str]:
    from xdsl.dialects import affine, arith, func, memref, scf
    from xdsl.dialects.builtin import DYNAMIC_INDEX, IndexType, IntegerAttr, IntegerType
    out = []
    for op in block.ops:
        if isinstance(op, (scf.YieldOp,)) and not op.operands:
            continue
        if isinstance(op, func.ReturnOp):
            continue
        if isinstance(op, arith.ConstantOp):
            if not isinstance(op.value, IntegerAttr) or not isinstance(op.value.type, (IndexType, IntegerType)):
                raise Unsupported("constant")
            out.append(f"Def {nat(nm.v(op.result))} (PConst {zlit(op.value.value.data)})")
        elif isinstance(op, (arith.AddiOp, arith.SubiOp, arith.MuliOp, arith.DivUIOp, arith.RemUIOp)):
            k = {arith.AddiOp: "BAdd", arith.SubiOp: "BSub", arith.MuliOp: "BMul", arith.DivUIOp: "BDivU", arith.RemUIOp: "BRemU"}[type(op)]
            out.append(f"Def {nat(nm.v(op.result))} (PBin {k} {nat(nm.v(op.lhs))} {nat(nm.v(op.rhs))})")
        elif isinstance(op, affine.MinOp):
            m = op.map.data
            ops_ = list(op.operands)
            rs = []
            for i in range(len(m.results)):
                c, cf = _lin(m, i, len(ops_))
                rs.append(f"({zlit(c)}, {coqlist(f'({zlit(a)}, {nat(nm.v(ops_[k]))})' for a, k in cf)})")
            out.append(f"Def {nat(nm.v(op.result))} (PMin {coqlist(rs)})")
        elif isinstance(op, memref.DimOp):
            out.append(f"Def {nat(nm.v(op.result))} (PDim {nat(nm.v(op.source))} {nat(nm.v(op.index))})")
        elif isinstance(op, memref.AllocOp):
            dyn = list(op.dynamic_sizes)
            sizes = []
            for s in op.memref.type.get_shape():
                if s == DYNAMIC_INDEX:
                    sizes.append(f"DDyn {nat(nm.v(dyn.pop(0)))}")
                else:
                    sizes.append(f"DStatic {zlit(s)}")
            out.append(f"Def {nat(nm.v(op.memref))} (PAlloc {coqlist(sizes)})")
        elif isinstance(op, memref.SubviewOp):
            dyn = list(op.sizes)
            sizes = []
            for s in op.static_sizes.get_values():
                if s == DYNAMIC_INDEX:
                    sizes.append(f"DDyn {nat(nm.v(dyn.pop(0)))}")
                else:
                    sizes.append(f"DStatic {zlit(s)}")
            out.append(f"Def {nat(nm.v(op.result))} (PSubview {nat(nm.v(op.source))} {coqlist(sizes)})")
        elif isinstance(op, memref.LoadOp):
            # the value last stored at that address (heap semantics of Model/C17Loop.v)
            ops_ = list(op.operands)
            out.append(f"Def {nat(nm.v(op.results[0]))} (PLoad {nat(nm.v(ops_[0]))} {coqlist(nat(nm.v(a)) for a in ops_[1:])})")
        elif isinstance(op, memref.StoreOp):
            # operands: value, memref, indices
            out.append(f"Eff 0 {coqlist(nat(nm.v(a)) for a in op.operands)}")
        elif isinstance(op, scf.ForOp):
            if len(op.iter_args) != 0:
                raise Unsupported("iter_args")
            body = conv_block(op.body.block, nm)
            out.append(f"For {nat(nm.v(op.body.block.args[0]))} {nat(nm.v(op.lb))} {nat(nm.v(op.ub))} {nat(nm.v(op.step))} {coqlist(body)}")
        else:
            if op.results or op.regions:
                raise Unsupported(op.name)
            key = (op.name, str(sorted((k, str(v)) for k, v in op.attributes.items())),
                   str(sorted((k, str(v)) for k, v in op.properties.items())))
            out.append(f"Eff {nat(nm.eff(key))} {coqlist(nat(nm.v(a)) for a in op.operands)}")
    return out


def the_func(module):
    from xdsl.dialects import func
    fs = [o for o in module.body.block.ops if isinstance(o, func.FuncOp) and o.body.blocks]
    assert len(fs) == 1
    return fs[0]


def snapshot(fn, nm: Names):
    """-> (args literal, prog literal)"""
    blk = fn.body.blocks[0]
    args = [nm.v(a) for a in blk.args]
    prog = conv_block(blk, nm)
    return coqlist(nat(a) for a in args + [x for x in nm.free if x not in args]), coqlist(prog)


def path_of(op, fn):
    path = []
    cur = op
    while True:
        blk = cur.parent_block()
        if blk is None:
            raise Unsupported("detached")
        path.append(list(blk.ops).index(cur))
        par = blk.parent_op()
        if par is fn:
            break
        if par is None:
            raise Unsupported("outside func")
        cur = par
    return list(reversed(path))


# ---------------------------------------------------------------------------------------------
# generators (MLIR text)


class Gen:
    def __init__(self, rng, family):
        self.rng = rng
        self.family = family  # "canon" | "reuse"
        self.n = 0
        self.lines = []
        self.tag = 0

    def fresh(self, p="v"):
        self.n += 1
        return f"%{p}{self.n}"

    def emit(self, ind, s):
        self.lines.append("  " * ind + s)

    def const(self, ind, val):
        nme = self.fresh("c")
        self.emit(ind, f"{nme} = arith.constant {val} : index")
        return nme

    def program(self):
        rng = self.rng
        vals = sorted(set([0, 1] + [rng.choice([2, 3, 4, 5, 6, 8, 10, 12, 7, 9, 11]) for _ in range(rng.choice([2, 3, 4]))]))
        if rng.random() < 0.08:
            vals.append(rng.choice([-1, -2, -3]))
        if rng.random() < 0.06:
            vals.append(rng.choice([-2, -3, -5]))
        self.consts = {}
        for v in vals:
            self.consts[v] = self.const(2, v)
        idx = list(self.consts.values()) + ["%a0"]
        mems = [("%m0", "memref<?x?xi8>", ["?", "?"])] if self.family == "reuse" else []
        if self.family == "reuse":
            self.emit(2, "%g0 = memref.alloc() : memref<4x4xi8>")
            self.emit(2, "%k8 = arith.constant 1 : i8")
        self.block(2, 0, idx, [], mems, top=True)
        hdr = ["builtin.module {", "  func.func private @ext(index, index) -> ()",
               "  func.func @f(%a0 : index" + (", %m0 : memref<?x?xi8>" if self.family == "reuse" else "") + ") {"]
        return "\n".join(hdr + self.lines + ["    func.return", "  }", "}"]) + "\n"

    def pick_const(self, pool, prefer=None):
        rng = self.rng
        if prefer is not None and prefer in self.consts and rng.random() < 0.8:
            return self.consts[prefer]
        return rng.choice(pool)

    def block(self, ind, depth, idx, ivs, mems, top=False):
        rng = self.rng
        idx = list(idx)
        mems = list(mems)
        cpool = list(self.consts.values())
        shape = rng.choice(["perfect", "perfect", "mixed", "mixed", "mixed"]) if depth < 3 else "leaf"
        if top:
            kinds = ["pre"] * rng.choice([0, 0, 1]) + ["for"] + ["post"] * rng.choice([0, 0, 1]) + ["for"] * rng.choice([0, 0, 1])
        elif depth <= 1 and self.family == "canon" and rng.random() < 0.12:
            # sibling loops in one body (both effectful): merging one of them into the parent would
            # multiply the executions of the other
            kinds = ["pure"] * rng.choice([0, 0, 1]) + ["sfor"] + ["pure"] * rng.choice([0, 0, 1]) + ["sfor"] + ["eff"] * rng.choice([0, 0, 0, 1])
        elif shape == "perfect" and depth < 3 and rng.random() < 0.7:
            kinds = ["pure"] * rng.choice([0, 0, 1, 2]) + ["for"] + ["pure"] * rng.choice([0, 0, 1])
        elif depth >= 3 or rng.random() < 0.45:
            kinds = [rng.choice(["eff", "eff", "pure", "mem"]) for _ in range(rng.choice([1, 2, 3]))]
            if "eff" not in kinds:
                kinds.append("eff")
        else:
            kinds = [rng.choice(["eff", "pure", "for", "mem", "cst"]) for _ in range(rng.choice([1, 2, 3, 4]))]
        for k in kinds:
            if k in ("pre", "post"):
                k = rng.choice(["eff", "pure", "mem"])
            if k == "sfor":
                nonneg = [n for v, n in self.consts.items() if v >= 0]
                ub = rng.choice(nonneg)
                st = self.consts[1] if rng.random() < 0.8 else rng.choice(nonneg)
                iv = self.fresh("i")
                self.emit(ind, f"scf.for {iv} = {self.consts[0]} to {ub} step {st} {{")
                if rng.random() < 0.75:
                    self.eff(ind + 1, idx + [iv], ivs + [iv], mems)
                else:
                    self.block(ind + 1, depth + 1, idx + [iv], ivs + [iv], mems)
                self.emit(ind, "}")
                continue
            if k == "for" and depth < 3:
                lb = self.consts[0] if rng.random() < 0.85 else rng.choice(cpool + ["%a0"])
                ub = rng.choice(cpool) if rng.random() < 0.93 else "%a0"
                r = rng.random()
                if r < 0.4:
                    st = self.consts[1]
                elif r < 0.93:
                    st = rng.choice(cpool)
                else:
                    st = "%a0"
                if rng.random() < 0.15 and not top:
                    # bounds defined right here, inside the enclosing body
                    ub = self.const(ind, rng.choice([0, 1, 2, 3, 5, 7, 12]))
                    if rng.random() < 0.5:
                        st = self.const(ind, rng.choice([1, 1, 2, 3]))
                    idx += [ub]
                iv = self.fresh("i")
                self.emit(ind, f"scf.for {iv} = {lb} to {ub} step {st} {{")
                self.block(ind + 1, depth + 1, idx + [iv], ivs + [iv], mems)
                self.emit(ind, "}")
            elif k == "eff" or (k == "for"):
                self.eff(ind, idx, ivs, mems)
            elif k == "pure":
                a, b = rng.choice(ivs or idx), rng.choice(idx)
                nme = self.fresh("p")
                opn = rng.choice(["arith.addi", "arith.muli", "arith.addi", "arith.subi"])
                self.emit(ind, f"{nme} = {opn} {a}, {b} : index")
                idx.append(nme)
            elif k == "cst":
                idx.append(self.const(ind, rng.choice([0, 1, 2, 3, 4, 8])))
            elif k == "mem":
                if self.family != "reuse":
                    self.eff(ind, idx, ivs, mems)
                    continue
                self.mem(ind, idx, ivs, mems)

    def eff(self, ind, idx, ivs, mems):
        rng = self.rng
        n = rng.choice([0, 1, 1, 2, 2, 3])
        args = [rng.choice(ivs) if ivs and rng.random() < 0.6 else rng.choice(idx) for _ in range(n)]
        tys = ["index"] * n
        if mems and rng.random() < 0.7:
            for _ in range(rng.choice([1, 1, 2])):
                m = rng.choice(mems[-3:]) if rng.random() < 0.7 else rng.choice(mems)
                args.append(m[0])
                tys.append(m[1])
        if n == 2 and len(args) == 2 and rng.random() < 0.3:
            self.emit(ind, f"func.call @ext({args[0]}, {args[1]}) : (index, index) -> ()")
            return
        self.tag += 1
        self.emit(ind, f'"test.op"({", ".join(args)}) {{tag = {self.tag} : i32}} : ({", ".join(tys)}) -> ()')

    def mem(self, ind, idx, ivs, mems):
        rng = self.rng
        k = rng.choice(["alloc", "alloc", "dim", "dim", "subview", "subview", "min", "chain", "chain", "chain2", "chain2", "outerdim", "chain3"])
        if k == "chain3":
            # The resolution passes THROUGH a memref.dim of the same loop level (kept there by a non-alloc use) whose
            # index differs from the index of the matched dim: dim(sv, 0) -> size operand %dA = dim(%m0, 1) -> new dim(%m0, 1).
            if 0 not in self.consts or 1 not in self.consts:
                k = "chain"
            else:
                ia, ib = rng.choice([(1, 0), (1, 0), (0, 1)])
                ty = "memref<?x?xi8, strided<[?, 1], offset: ?>>"
                dA = self.fresh("d")
                self.emit(ind, f"{dA} = memref.dim %m0, {self.consts[ia]} : memref<?x?xi8>")
                self.tag += 1
                self.emit(ind, f'"test.op"({dA}) {{tag = {self.tag} : i32}} : (index) -> ()')
                other = rng.choice(list(self.consts.values()))
                sizes = [dA, other] if ib == 0 else [other, dA]
                sv = self.fresh("sv")
                off = rng.choice(ivs) if ivs else "0"
                self.emit(ind, f"{sv} = memref.subview %m0[{off}, 0] [{sizes[0]}, {sizes[1]}] [1, 1] : memref<?x?xi8> to {ty}")
                d = self.fresh("d")
                self.emit(ind, f"{d} = memref.dim {sv}, {self.consts[ib]} : {ty}")
                al = self.fresh("al")
                self.emit(ind, f"{al} = memref.alloc({d}) : memref<?x4xi8>")
                self.tag += 1
                self.emit(ind, f'"test.op"({al}) {{tag = {self.tag} : i32}} : (memref<?x4xi8>) -> ()')
                mems.append((al, "memref<?x4xi8>", None))
                return
        if k == "outerdim":
            # The replacement found by MoveMemrefDims is an EXISTING memref.dim that lives in the enclosing loop
            # body (it depends on that loop's induction variable, so it cannot leave it) and has other uses
            # before / after the inner loop: the inner dim must be replaced without disturbing them.
            if not ivs or 0 not in self.consts or 1 not in self.consts:
                k = "chain"
            else:
                c0 = self.consts[0]
                ty = "memref<?x4xi8, strided<[?, 1], offset: ?>>"
                sv = self.fresh("sv")
                self.emit(ind, f"{sv} = memref.subview %m0[{rng.choice(ivs)}, 0] [{rng.choice(ivs)}, 4] [1, 1] : memref<?x?xi8> to {ty}")
                d = self.fresh("d")
                self.emit(ind, f"{d} = memref.dim {sv}, {c0} : {ty}")
                if rng.random() < 0.7:
                    al = self.fresh("al")
                    self.emit(ind, f"{al} = memref.alloc({d}) : memref<?x8xi8>")
                    self.tag += 1
                    self.emit(ind, f'"test.op"({al}) {{tag = {self.tag} : i32}} : (memref<?x8xi8>) -> ()')
                j = self.fresh("i")
                ub = rng.choice(list(self.consts.values()))
                self.emit(ind, f"scf.for {j} = {c0} to {ub} step {self.consts[1]} {{")
                sv2 = self.fresh("sv")
                self.emit(ind + 1, f"{sv2} = memref.subview %m0[{rng.choice([j, '0'])}, 0] [{d}, 4] [1, 1] : memref<?x?xi8> to {ty}")
                d2 = self.fresh("d")
                self.emit(ind + 1, f"{d2} = memref.dim {sv2}, {c0} : {ty}")
                al2 = self.fresh("al")
                self.emit(ind + 1, f"{al2} = memref.alloc({d2}) : memref<?x4xi8>")
                self.tag += 1
                self.emit(ind + 1, f'"test.op"({al2}, {j}) {{tag = {self.tag} : i32}} : (memref<?x4xi8>, index) -> ()')
                self.emit(ind, "}")
                if rng.random() < 0.4:
                    al = self.fresh("al")
                    self.emit(ind, f"{al} = memref.alloc({d}) : memref<?x8xi8>")
                    self.tag += 1
                    self.emit(ind, f'"test.op"({al}) {{tag = {self.tag} : i32}} : (memref<?x8xi8>) -> ()')
                idx.append(d)
                self.dims = getattr(self, "dims", []) + [d]
                return
        if k in ("alloc", "dim") and rng.random() < 0.35 and 0 in self.consts and 1 in self.consts:
            # a load from and (mostly) a store to a loop-invariant address of a buffer defined outside the loops
            a, b = self.consts[rng.choice([0, 1])], self.consts[rng.choice([0, 1])]
            buf, bty = rng.choice([("%g0", "memref<4x4xi8>"), ("%g0", "memref<4x4xi8>"), ("%m0", "memref<?x?xi8>")])
            v = self.fresh("ld")
            self.emit(ind, f"{v} = memref.load {buf}[{a}, {b}] : {bty}")
            self.tag += 1
            self.emit(ind, f'"test.op"({v}) {{tag = {self.tag} : i32}} : (i8) -> ()')
            if rng.random() < 0.8:
                w = self.fresh("w")
                self.emit(ind, f"{w} = arith.addi {v}, %k8 : i8")
                self.emit(ind, f"memref.store {w}, {buf}[{a}, {b}] : {bty}")
            return
        if k == "chain2":
            # memref.dim (index 0 and 1) of a subview with TWO dynamic sizes of different value, feeding an
            # alloc that an opaque op observes (the size operand looked up must be the right one)
            vals = [v for v in self.consts if v > 0]
            if len(vals) < 2:
                k = "chain"
            else:
                v0, v1 = rng.sample(vals, 2)
                s0 = self.consts[v0] if rng.random() < 0.6 else self.const(ind, v0)
                s1 = self.consts[v1] if rng.random() < 0.6 else self.const(ind, v1)
                if rng.random() < 0.3 and ivs:
                    c, n = rng.choice([2, 4, 8]), rng.choice([6, 10, 12])
                    s0 = self.fresh("mn")
                    self.emit(ind, f"{s0} = affine.min affine_map<(d0) -> ({c}, -d0 + {n})>({rng.choice(ivs)})")
                src = rng.choice(mems)
                offs = [rng.choice(ivs) if ivs and rng.random() < 0.6 else "0" for _ in range(2)]
                ty = "memref<?x?xi8, strided<[?, 1], offset: ?>>"
                sv = self.fresh("sv")
                self.emit(ind, f"{sv} = memref.subview {src[0]}[{offs[0]}, {offs[1]}] [{s0}, {s1}] [1, 1] : {src[1]} to {ty}")
                mems.append((sv, ty, ["?", "?"]))
                ds = []
                for di in rng.choice([[0, 1], [1, 0], [1], [0]]):
                    d = self.fresh("d")
                    self.emit(ind, f"{d} = memref.dim {sv}, {self.consts[di]} : {ty}")
                    ds.append(d)
                al = self.fresh("al")
                if len(ds) == 2:
                    self.emit(ind, f"{al} = memref.alloc({ds[0]}, {ds[1]}) : memref<?x?xi8>")
                    aty = "memref<?x?xi8>"
                else:
                    self.emit(ind, f"{al} = memref.alloc({ds[0]}) : memref<?x4xi8>")
                    aty = "memref<?x4xi8>"
                mems.append((al, aty, None))
                self.tag += 1
                self.emit(ind, f'"test.op"({al}, {sv}) {{tag = {self.tag} : i32}} : ({aty}, {ty}) -> ()')
                return
        if k == "min":
            iv = rng.choice(ivs) if ivs else rng.choice(idx)
            c, n = rng.choice([2, 4, 8]), rng.choice([6, 10, 12, 16])
            form = rng.choice(["cfirst", "cfirst", "cfirst", "clast", "cc"])
            m = {"cfirst": f"({c}, -d0 + {n})", "clast": f"(-d0 + {n}, {c})", "cc": f"({c}, {n})"}[form]
            nme = self.fresh("mn")
            self.emit(ind, f"{nme} = affine.min affine_map<(d0) -> {m}>({iv})")
            idx.append(nme)
            self.last_min = nme
        elif k == "dim":
            m = rng.choice(mems)
            d = rng.choice([0, 1])
            if d not in self.consts:
                d = 0
            nme = self.fresh("d")
            self.emit(ind, f"{nme} = memref.dim {m[0]}, {self.consts[d]} : {m[1]}")
            idx.append(nme)
            self.dims = getattr(self, "dims", []) + [nme]
        elif k == "alloc":
            self.alloc(ind, idx, mems, prefer=[d for d in getattr(self, "dims", []) if d in idx][-2:])
        elif k == "subview":
            self.subview(ind, idx, ivs, mems, None)
        else:
            # the pattern MoveMemrefDims looks for: size -> subview -> dim -> alloc
            size = None
            r = rng.random()
            if r < 0.4 and ivs:
                c, n = rng.choice([2, 4, 8]), rng.choice([6, 10, 12])
                size = self.fresh("mn")
                form = "(%d, -d0 + %d)" % (c, n) if rng.random() < 0.85 else "(-d0 + %d, %d)" % (n, c)
                self.emit(ind, f"{size} = affine.min affine_map<(d0) -> {form}>({rng.choice(ivs)})")
                idx.append(size)
            elif r < 0.6:
                size = rng.choice(list(self.consts.values()))
            elif r < 0.75 and [d for d in getattr(self, "dims", []) if d in idx]:
                size = rng.choice([d for d in self.dims if d in idx])
            elif r < 0.85 and ivs:
                size = rng.choice(ivs)
            sv = self.subview(ind, idx, ivs, mems, size)
            d = 0
            nme = self.fresh("d")
            self.emit(ind, f"{nme} = memref.dim {sv[0]}, {self.consts[d]} : {sv[1]}")
            idx.append(nme)
            self.dims = getattr(self, "dims", []) + [nme]
            if rng.random() < 0.85:
                self.alloc(ind, idx, mems, prefer=[nme])
            if rng.random() < 0.4:
                self.eff(ind, idx + ([size] if size and size.startswith("%") else []), ivs, mems)

    def alloc(self, ind, idx, mems, prefer):
        rng = self.rng
        shape = [rng.choice(["?", "?", "4", "8"]) for _ in range(2)]
        dyn = []
        for s in shape:
            if s == "?":
                dyn.append(rng.choice(prefer) if prefer and rng.random() < 0.7 else rng.choice(idx))
        nme = self.fresh("al")
        ty = f"memref<{shape[0]}x{shape[1]}xi8>"
        self.emit(ind, f"{nme} = memref.alloc({', '.join(dyn)}) : {ty}")
        mems.append((nme, ty, shape))

    def subview(self, ind, idx, ivs, mems, size0):
        rng = self.rng
        src = rng.choice(mems)
        sizes = []
        for d in range(2):
            if d == 0 and size0 is not None:
                sizes.append(size0)
            else:
                r = rng.random()
                sizes.append(rng.choice(["2", "4"]) if r < 0.4 else rng.choice(idx))
        offs = [rng.choice(ivs) if ivs and rng.random() < 0.6 else "0" for _ in range(2)]
        shape = [s if not s.startswith("%") else "?" for s in sizes]
        ty = f"memref<{shape[0]}x{shape[1]}xi8, strided<[?, 1], offset: ?>>"
        nme = self.fresh("sv")
        self.emit(ind, f"{nme} = memref.subview {src[0]}[{offs[0]}, {offs[1]}] [{sizes[0]}, {sizes[1]}] [1, 1] : {src[1]} to {ty}")
        e = (nme, ty, shape)
        mems.append(e)
        return e


CORPUS = {
    "canon": [
        # F14 witness, F15 witness, negative bounds, bounds defined in the parent body, 3-deep nest
        """builtin.module { func.func @f(%a0 : index) {
  %c0 = arith.constant 0 : index
  %c10 = arith.constant 10 : index
  %c4 = arith.constant 4 : index
  scf.for %i = %c0 to %c10 step %c4 { "test.op"(%i) : (index) -> () }
  func.return } }""",
        """builtin.module { func.func @f(%a0 : index) {
  %c0 = arith.constant 0 : index
  %c2 = arith.constant 2 : index
  %c3 = arith.constant 3 : index
  %c1 = arith.constant 1 : index
  scf.for %i = %c0 to %c2 step %c1 {
    "test.op"(%i) {tag = 1 : i32} : (index) -> ()
    scf.for %j = %c0 to %c3 step %c1 { "test.op"(%i, %j) {tag = 2 : i32} : (index, index) -> () }
    "test.op"(%i) {tag = 3 : i32} : (index) -> ()
  }
  func.return } }""",
        """builtin.module { func.func @f(%a0 : index) {
  %c0 = arith.constant 0 : index
  %cm2 = arith.constant -2 : index
  %cm3 = arith.constant -3 : index
  %c1 = arith.constant 1 : index
  scf.for %i = %c0 to %cm2 step %c1 {
    scf.for %j = %c0 to %cm3 step %c1 { "test.op"(%i, %j) : (index, index) -> () }
  }
  func.return } }""",
        """builtin.module { func.func @f(%a0 : index) {
  %c0 = arith.constant 0 : index
  %c7 = arith.constant 7 : index
  %c2 = arith.constant 2 : index
  %c3 = arith.constant 3 : index
  scf.for %i = %c0 to %c7 step %c2 {
    %p = arith.addi %i, %c3 : index
    scf.for %j = %c0 to %c7 step %c3 {
      scf.for %k = %c0 to %c3 step %c2 { "test.op"(%i, %j, %k, %p) : (index, index, index, index) -> () }
    }
  }
  func.return } }""",
        # two effectful sibling loops in one body: neither may be merged into the parent
        """builtin.module { func.func @f(%a0 : index) {
  %c0 = arith.constant 0 : index
  %c1 = arith.constant 1 : index
  %c2 = arith.constant 2 : index
  %c3 = arith.constant 3 : index
  scf.for %i = %c0 to %c3 step %c1 {
    scf.for %j = %c0 to %c2 step %c1 { "test.op"(%i, %j) {tag = 1 : i32} : (index, index) -> () }
    scf.for %k = %c0 to %c3 step %c1 { "test.op"(%i, %k) {tag = 2 : i32} : (index, index) -> () }
  }
  func.return } }""",
    ],
    "reuse": [
        # dims of rank-3 subviews mixing dynamic and static sizes (operand index of a dynamic size)
        """builtin.module { func.func @f(%a0 : index, %m0 : memref<?x?xi8>) {
  %c0 = arith.constant 0 : index
  %c1 = arith.constant 1 : index
  %c2 = arith.constant 2 : index
  %c3 = arith.constant 3 : index
  %c5 = arith.constant 5 : index
  %c6 = arith.constant 6 : index
  %g3 = memref.alloc(%c6, %c6) : memref<?x?x4xi8>
  %h3 = memref.alloc(%c6, %c6) : memref<?x4x?xi8>
  scf.for %i = %c0 to %c3 step %c1 {
    %sv = memref.subview %g3[%i, 0, 0] [%c3, %c5, 4] [1, 1, 1] : memref<?x?x4xi8> to memref<?x?x4xi8, strided<[?, 4, 1], offset: ?>>
    %d0 = memref.dim %sv, %c0 : memref<?x?x4xi8, strided<[?, 4, 1], offset: ?>>
    %d1 = memref.dim %sv, %c1 : memref<?x?x4xi8, strided<[?, 4, 1], offset: ?>>
    %al = memref.alloc(%d0, %d1) : memref<?x?xi8>
    "test.op"(%i, %al) {tag = 1 : i32} : (index, memref<?x?xi8>) -> ()
    %sw = memref.subview %h3[%i, 0, 0] [%c2, 4, %c5] [1, 1, 1] : memref<?x4x?xi8> to memref<?x4x?xi8, strided<[?, ?, 1], offset: ?>>
    %e0 = memref.dim %sw, %c0 : memref<?x4x?xi8, strided<[?, ?, 1], offset: ?>>
    %e2 = memref.dim %sw, %c2 : memref<?x4x?xi8, strided<[?, ?, 1], offset: ?>>
    %am = memref.alloc(%e0, %e2) : memref<?x?xi8>
    "test.op"(%i, %am) {tag = 2 : i32} : (index, memref<?x?xi8>) -> ()
  }
  func.return } }""",
        # a loop that loads from and stores to a loop-invariant address
        """builtin.module { func.func @f(%a0 : index, %m0 : memref<?x?xi8>) {
  %c0 = arith.constant 0 : index
  %c1 = arith.constant 1 : index
  %c3 = arith.constant 3 : index
  %k = arith.constant 1 : i8
  %g = memref.alloc() : memref<4x4xi8>
  scf.for %i = %c0 to %c3 step %c1 {
    %v = memref.load %g[%c0, %c1] : memref<4x4xi8>
    %w = arith.addi %v, %k : i8
    "test.op"(%i, %v) : (index, i8) -> ()
    memref.store %w, %g[%c0, %c1] : memref<4x4xi8>
  }
  func.return } }""",
        # dims of a subview with two dynamic sizes of different value
        """builtin.module { func.func @f(%a0 : index, %m0 : memref<?x?xi8>) {
  %c0 = arith.constant 0 : index
  %c1 = arith.constant 1 : index
  %c3 = arith.constant 3 : index
  %c5 = arith.constant 5 : index
  scf.for %i = %c0 to %c3 step %c1 {
    %sv = memref.subview %m0[%i, 0] [%c3, %c5] [1, 1] : memref<?x?xi8> to memref<?x?xi8, strided<[?, 1], offset: ?>>
    %d0 = memref.dim %sv, %c0 : memref<?x?xi8, strided<[?, 1], offset: ?>>
    %d1 = memref.dim %sv, %c1 : memref<?x?xi8, strided<[?, 1], offset: ?>>
    %al = memref.alloc(%d0, %d1) : memref<?x?xi8>
    "test.op"(%i, %al) : (index, memref<?x?xi8>) -> ()
  }
  func.return } }""",
        """builtin.module { func.func @f(%a0 : index, %m0 : memref<?x?xi8>) {
  %c0 = arith.constant 0 : index
  %c1 = arith.constant 1 : index
  %c8 = arith.constant 8 : index
  scf.for %i = %c0 to %c8 step %c1 {
    %d0 = memref.dim %m0, %c0 : memref<?x?xi8>
    %d1 = memref.dim %m0, %c1 : memref<?x?xi8>
    %al = memref.alloc(%d0, %d1) : memref<?x?xi8>
    "test.op"(%i, %al) : (index, memref<?x?xi8>) -> ()
  }
  func.return } }""",
        """builtin.module { func.func @f(%a0 : index, %m0 : memref<?x?xi8>) {
  %c0 = arith.constant 0 : index
  %c1 = arith.constant 1 : index
  %c0b = arith.constant 0 : index
  scf.for %i = %c0 to %c0b step %c1 {
    %c5 = arith.constant 5 : index
    %al = memref.alloc(%c5) : memref<?x4xi8>
    "test.op"(%i, %al) : (index, memref<?x4xi8>) -> ()
  }
  func.return } }""",
        # the deliberate refusal: an affine.min whose first map result is not a constant (RuntimeError)
        """builtin.module { func.func @f(%a0 : index, %m0 : memref<?x?xi8>) {
  %c0 = arith.constant 0 : index
  %c10 = arith.constant 10 : index
  %c8 = arith.constant 8 : index
  scf.for %i = %c0 to %c10 step %c8 {
    %sz = affine.min affine_map<(d0) -> (-d0 + 10, 8)>(%i)
    %sv = memref.subview %m0[%i, 0] [%sz, 4] [1, 1] : memref<?x?xi8> to memref<?x4xi8, strided<[?, 1], offset: ?>>
    %d = memref.dim %sv, %c0 : memref<?x4xi8, strided<[?, 1], offset: ?>>
    %a = memref.alloc(%d) : memref<?x4xi8>
    "test.op"(%sv, %a, %sz) : (memref<?x4xi8, strided<[?, 1], offset: ?>>, memref<?x4xi8>, index) -> ()
  }
  func.return } }""",
    ],
}

# witness of the known finding F22 (move_dim_affine_min)
AMIN_WITNESS = """builtin.module { func.func @f(%a0 : index, %m0 : memref<?x?xi8>) {
  %c0 = arith.constant 0 : index
  %c10 = arith.constant 10 : index
  %c8 = arith.constant 8 : index
  scf.for %i = %c0 to %c10 step %c8 {
    %sz = affine.min affine_map<(d0) -> (8, -d0 + 10)>(%i)
    %sv = memref.subview %m0[%i, 0] [%sz, 4] [1, 1] : memref<?x?xi8> to memref<?x4xi8, strided<[?, 1], offset: ?>>
    %d = memref.dim %sv, %c0 : memref<?x4xi8, strided<[?, 1], offset: ?>>
    %a = memref.alloc(%d) : memref<?x4xi8>
    "test.op"(%sv, %a, %sz) : (memref<?x4xi8, strided<[?, 1], offset: ?>>, memref<?x4xi8>, index) -> ()
  }
  func.return } }"""


# ---------------------------------------------------------------------------------------------
# running the real passes


_XCTX = None


def xctx():
    global _XCTX
    if _XCTX is None:
        from snaxc.tools.snax_opt_main import SNAXOptMain
        probe = str(vlib.VERIF / "notes" / "probe_c17_step_and_merge.mlir")
        _XCTX = SNAXOptMain(args=[probe]).ctx
    return _XCTX


def parse(text):
    from xdsl.parser import Parser
    return Parser(xctx(), text).parse_module()


def the_pass(family):
    if family == "canon":
        from snaxc.transforms.pipeline.pipeline_canonicalize_for import PipelineCanonicalizeFor
        return PipelineCanonicalizeFor()
    from snaxc.transforms.reuse_memref_allocs import ReuseMemrefAllocs
    return ReuseMemrefAllocs()


def pattern_classes():
    from snaxc.transforms.pipeline import pipeline_canonicalize_for as pcf
    from snaxc.transforms import reuse_memref_allocs as rma
    return {"RChangeStep": pcf.ChangeForStep, "RMerge": pcf.MergeForLoops,
            "RHoist": rma.LoopHoistPureOperations, "MoveDim": rma.MoveMemrefDims}


class Recorder:
    """Wraps match_and_rewrite of the four pattern classes; records every rewrite that changed the IR."""

    def __init__(self, fn, nm):
        self.fn, self.nm, self.records, self.saved = fn, nm, [], {}

    def __enter__(self):
        for rule, cls in pattern_classes().items():
            orig = cls.match_and_rewrite
            self.saved[cls] = orig
            cls.match_and_rewrite = self._wrap(rule, orig)
        return self

    def __exit__(self, *a):
        for cls, orig in self.saved.items():
            cls.match_and_rewrite = orig

    def _wrap(self, rule, orig):
        rec = self

        def mar(self_, op, rewriter):
            before = None
            try:
                path = path_of(op, rec.fn)
                before = snapshot(rec.fn, rec.nm)
            except (Unsupported, ValueError):
                before = None
            pre = rec.observe_pre(op) if rule == "MoveDim" and before is not None and op.name == "memref.dim" else None
            orig(self_, op, rewriter)
            # MoveMemrefDims edits the IR without telling the rewriter: compare the snapshots as well
            try:
                after = snapshot(rec.fn, rec.nm)
            except Unsupported:
                after = None
            if rewriter.has_done_action or (before is not None and after != before):
                if before is None or after is None:
                    rec.records.append({"rule": rule, "unsupported": True})
                    return
                rec.records.append({"rule": rule, "path": path, "before": before, "after": after,
                                    "observed": rec.observe_post(pre) if pre is not None else None})
        return mar

    # What did MoveMemrefDims put in the place of the matched memref.dim?  Read off the operand slot of one
    # former user of the dim after the rewrite and rendered as a `repl` of the model (compared with
    # `resolve_at` in Coq).  Values known before the rewrite are existing ops (RVar), others are new ops.
    def observe_pre(self, op):
        from xdsl.dialects import affine
        uses = [(u.operation, u.index) for u in op.results[0].uses]
        mins = [(o, len(list(o.results[0].uses))) for o in self.fn.walk() if isinstance(o, affine.MinOp)]
        return {"dim": op.results[0], "uses": uses, "known": set(self.nm.ids.keys()), "mins": mins}

    def observe_post(self, pre):
        from xdsl.dialects import arith, memref
        if not pre["uses"]:
            return None  # a dim without users: nothing to observe
        o, i = pre["uses"][0]
        nv = o.operands[i]
        if nv is pre["dim"]:
            return None
        owner = nv.owner
        if id(nv) in pre["known"]:
            return f"RVar {nat(self.nm.v(nv))}"
        if isinstance(owner, arith.ConstantOp):
            c = owner.value.value.data
            for m, n in pre["mins"]:
                if n > 0 and len(list(m.results[0].uses)) == 0:
                    return f"RMin {nat(self.nm.v(m.results[0]))} {zlit(c)}"
            return f"RConst {zlit(c)}"
        if isinstance(owner, memref.DimOp) and isinstance(owner.index.owner, arith.ConstantOp):
            return f"RNewDim {nat(self.nm.v(owner.source))} {zlit(owner.index.owner.value.value.data)}"
        return "RVar 999999"  # something the model has no name for: must disagree


PASS_TIME_LIMIT = 20  # seconds per generated program (a normal run takes milliseconds)


class PassTimeout(Exception):
    pass


class _time_limit:
    def __init__(self, seconds):
        self.seconds = seconds

    def __enter__(self):
        import signal

        def handler(signum, frame):
            raise PassTimeout(f"the pass did not terminate within {self.seconds} s")
        self.old = signal.signal(signal.SIGALRM, handler)
        signal.alarm(self.seconds)

    def __exit__(self, *a):
        import signal
        signal.alarm(0)
        signal.signal(signal.SIGALRM, self.old)
        return False


def run_case(text, family, record=True):
    """-> dict(before, after, records, error)"""
    res = {"text": text, "family": family}
    try:
        mod = parse(text)
    except Exception as e:  # a generator bug must not look like a violation
        res["error"] = f"unsupported:generated-program-does-not-parse:{str(e)[:80]}"
        return res
    fn = the_func(mod)
    nm = Names()
    try:
        res["before"] = snapshot(fn, nm)
    except Unsupported as e:
        res["error"] = f"unsupported:{e}"
        return res
    try:
        with _time_limit(PASS_TIME_LIMIT):  # a pass that does not terminate is a failure of the pass, not of the harness
            if record:
                with Recorder(fn, nm) as r:
                    the_pass(family).apply(xctx(), mod)
                res["records"] = r.records
            else:
                the_pass(family).apply(xctx(), mod)
                res["records"] = []
        mod.verify()
    except Exception as e:  # the pass itself failed loudly
        res["error"] = f"pass-error:{type(e).__name__}:{str(e)[:120]}"
        return res
    try:
        res["after"] = snapshot(fn, nm)
        res["after_text"] = str(mod)
    except Unsupported as e:
        res["error"] = f"unsupported-after:{e}"
    return res


def model_loc(rule, path):
    """(rule term, path) for the model: merge/hoist are applied at the parent loop."""
    if rule == "RChangeStep":
        return "RChangeStep", path
    return f"({rule} {nat(path[-1])})", path[:-1]


def loops_of(fn):
    """[(path, n_body_ops, [indices of body ops that are loops])] for every scf.for of the function."""
    from xdsl.dialects import scf
    out = []

    def walk(block, prefix):
        for i, op in enumerate(block.ops):
            if isinstance(op, scf.ForOp):
                body = [o for o in op.body.block.ops if not isinstance(o, scf.YieldOp)]
                out.append((prefix + [i], len(body), [j for j, o in enumerate(body) if isinstance(o, scf.ForOp)]))
                walk(op.body.block, prefix + [i])
    walk(fn.body.blocks[0], [])
    return out


HEADER = "From Snax Require Import Base.Prelude Model.C17Loop Model.C17MoveDim.\nLocal Open Scope nat_scope.\n"
L1_TEST = ("fun c : list var * list op * rule * list nat * list op => match c with (args, b, r, p, a) => "
           "match rewrite_in args r p b with Some b' => (negb (wf_prog args b) || wf_prog args b') && block_eqb (canon %d%%nat b') (canon %d%%nat a) | None => false end end" % (BASE, BASE))
FIX_TEST = ("fun c : list op * rule * list nat => match c with (b, r, p) => "
            "match rewrite r p b with Some _ => false | None => true end end")

MD_TEST = ("fun c : list op * list nat * repl => match c with (b, p, r) => "
           "optrepl_eqb (resolve_at p [] false b) (Some r) end")

REFUSAL = "pass-error:RuntimeError:no constant value found"


def crash_kind(r):
    """unsupported: the converter / generator cannot express the program (skipped);
    refusal?: the deliberate RuntimeError of get_constant_value_from_affine_min (excused iff the model's
    predicate prog_has_refused_min holds on the input); pass-error: any other exception of the pass, a result
    that fails verification, or a result outside the abstract IR: never skipped."""
    e = r["error"]
    if e.startswith(REFUSAL) and "before" in r:
        return "refusal?"
    if e.startswith("pass-error") or e.startswith("unsupported-after"):
        return "pass-error"
    return "unsupported"


def unexcused(crashes):
    """[(family, run_case result with error)] -> those that are not a deliberate refusal of the model's class."""
    out = [(fam, r) for fam, r in crashes if crash_kind(r) == "pass-error"]
    ask = [(fam, r) for fam, r in crashes if crash_kind(r) == "refusal?"]
    if ask:
        txt = HEADER + f"Definition cases : list (list op) := {coqlist(r['before'][1] for _, r in ask)}.\nEval vm_compute in failing prog_has_refused_min cases.\n"
        ok, res = vlib.coq_eval("c17refuse", txt, timeout=600)
        lst = vlib.parse_eval_list(res) if ok else None
        if lst is None:
            raise RuntimeError("refusal cases file failed: " + res[-1500:])
        out += [ask[i] for i in lst]
    return out


def gen_text(rng, family):
    return Gen(rng, family).program()


def inputs_for(rng, family, k):
    envs = []
    for _ in range(k):
        a0 = rng.choice([0, 1, 2, 3, 4, 5, 7, 12, -1])
        envs.append((a0, [rng.choice([1, 2, 3, 5, 8, 10, 12]), rng.choice([1, 2, 4, 7, 9])]))
    return envs


def env_lit(args_lit, family, env):
    # args are numbered 0 (a0) and 1 (m0) by construction (first values seen by Names)
    a0, shp = env
    items = [f"(0%nat, VInt {zlit(a0)})"]
    if family == "reuse":
        items.append(f"(1%nat, VMem 1001%Z {vlib.zlist(shp)})")
    return "(env_of " + coqlist(items) + ")"


def eval_sections(name, texts, timeout=1200):
    """texts: HEADER + one `Definition cases` + one Eval each.  Packs them into few files (coqc start-up
    dominates), returns [(ok, [list per Eval])] per section."""
    files, cur, size = [], [], 0
    for i, t in enumerate(texts):
        body = t[len(HEADER):].replace("cases", f"cases{i}")
        if cur and size + len(body) > 350000:
            files.append(cur)
            cur, size = [], 0
        cur.append(body)
        size += len(body)
    if cur:
        files.append(cur)
    res = []
    for secs, (ok, out) in zip(files, vlib.coq_eval_many(name, [HEADER + "".join(f) for f in files], timeout=timeout)):
        lists = vlib.parse_all_eval_lists(out)
        if not ok or len(lists) != len(secs):
            res += [(False, out)] * len(secs)
        else:
            res += [(True, l) for l in lists]
    return res


# ---------------------------------------------------------------------------------------------
# L1


def correspondence(ctx):
    rng = ctx.rng
    cases, meta = [], []
    fix_cases, fix_meta = [], []
    stats = {"pass-error": 0, "unsupported": 0}
    todo = [("canon", t) for t in CORPUS["canon"]] + [("reuse", t) for t in CORPUS["reuse"]]
    n = ctx.n(160, 2500)
    for i in range(n):
        fam = "canon" if i % 5 < 3 else "reuse"
        todo.append((fam, gen_text(rng, fam)))
    md_cases, md_meta = [], []
    crashes = []
    for fam, text in todo:
        r = run_case(text, fam)
        if "error" in r:
            kind = crash_kind(r)
            stats[kind] = stats.get(kind, 0) + 1
            ctx.count({"L1": fam, "error": r["error"]}, False, None, "L1-" + kind)
            if kind in ("pass-error", "refusal?"):
                crashes.append((fam, r))
            continue
        nrec = 0
        for rec in r["records"]:
            if rec.get("unsupported"):
                continue
            if rec["rule"] == "MoveDim":
                # the size resolution of the model must name the replacement the real pattern chose
                if rec.get("observed"):
                    md_cases.append(f"({rec['before'][1]}, {coqlist(nat(x) for x in rec['path'])}, {rec['observed']})")
                    md_meta.append({"family": fam, "rule": "MoveDim", "path": rec["path"], "observed": rec["observed"], "program": text})
                    ctx.histogram["rewrite-MoveDim"] = ctx.histogram.get("rewrite-MoveDim", 0) + 1
                    nrec += 1
                    if not rec["observed"].lstrip("(").startswith("RMin"):
                        # ... and the IR surgery of the (guarded) model must produce the real result
                        mpath = rec["path"][:-1]
                        cases.append(f"({rec['before'][0]}, {rec['before'][1]}, (RMoveDim {nat(rec['path'][-1])}), "
                                     f"{coqlist(nat(x) for x in mpath)}, {rec['after'][1]})")
                        meta.append({"family": fam, "rule": "MoveDim-surgery", "path": rec["path"], "observed": rec["observed"], "program": text})
                        ctx.histogram["rewrite-MoveDim-surgery"] = ctx.histogram.get("rewrite-MoveDim-surgery", 0) + 1
                continue
            rule, mpath = model_loc(rec["rule"], rec["path"])
            args, b = rec["before"]
            _, a = rec["after"]
            cases.append(f"({args}, {b}, {rule}, {coqlist(nat(x) for x in mpath)}, {a})")
            meta.append({"family": fam, "rule": rec["rule"], "path": rec["path"], "program": text})
            nrec += 1
            ctx.histogram["rewrite-" + rec["rule"]] = ctx.histogram.get("rewrite-" + rec["rule"], 0) + 1
        ctx.count({"L1": fam, "rewrites": [x["rule"] for x in r["records"]], "program": text[:400]}, nrec > 0, text, "L1-" + fam)
        # at the fixpoint no rule of the model may be applicable (MoveMemrefDims interplay excluded for hoist:
        # the pass stops only when LoopHoistPureOperations has nothing left to move as well)
        mod2 = parse(r["after_text"])
        fn2 = the_func(mod2)
        try:
            _, b2 = snapshot(fn2, Names())
        except Unsupported:
            continue
        for path, nbody, inner in loops_of(fn2):
            pl = coqlist(nat(x) for x in path)
            if fam == "canon":
                fix_cases.append(f"({b2}, RChangeStep, {pl})")
                fix_meta.append({"family": fam, "rule": "RChangeStep", "path": path, "program": text})
                for j in inner:
                    fix_cases.append(f"({b2}, RMerge {nat(j)}, {pl})")
                    fix_meta.append({"family": fam, "rule": "RMerge", "path": path + [j], "program": text})
            else:
                for j in range(nbody):
                    fix_cases.append(f"({b2}, RHoist {nat(j)}, {pl})")
                    fix_meta.append({"family": fam, "rule": "RHoist", "path": path + [j], "program": text})
    ctx.extra["l1_rewrites_compared"] = len(cases) + len(md_cases)
    ctx.extra["l1_movedim_resolutions_compared"] = len(md_cases)
    ctx.extra["l1_fixpoint_candidates"] = len(fix_cases)
    ctx.extra["l1_skipped"] = stats
    texts, shards = [], []
    SH = 250
    for s in range(0, len(cases), SH):
        texts.append(HEADER + f"Definition cases : list (list var * list op * rule * list nat * list op) := {coqlist(cases[s:s + SH])}.\nEval vm_compute in failing ({L1_TEST}) cases.\n")
        shards.append(("rw", s))
    for s in range(0, len(fix_cases), 4 * SH):
        texts.append(HEADER + f"Definition cases : list (list op * rule * list nat) := {coqlist(fix_cases[s:s + 4 * SH])}.\nEval vm_compute in failing ({FIX_TEST}) cases.\n")
        shards.append(("fix", s))
    for s in range(0, len(md_cases), 2 * SH):
        texts.append(HEADER + f"Definition cases : list (list op * list nat * repl) := {coqlist(md_cases[s:s + 2 * SH])}.\nEval vm_compute in failing ({MD_TEST}) cases.\n")
        shards.append(("md", s))
    dis = [{"name": "L1:pass-crashed", "family": fam, "error": r["error"], "program": r["text"]} for fam, r in unexcused(crashes)]
    for (kind, s), (ok, out) in zip(shards, eval_sections("c17l1_", texts)):
        if not ok:
            return [{"name": "cases-file", "detail": out[-2000:]}]
        for idx in out:
            m = {"rw": meta, "fix": fix_meta, "md": md_meta}[kind][s + idx]
            dis.append({"name": {"rw": "L1:rewrite", "fix": "L1:model-applies-at-fixpoint", "md": "L1:move-dim-resolution"}[kind], **m})
    return dis


# ---------------------------------------------------------------------------------------------
# L2


L2_TEST = ("fun c : list var * list op * list op * list env => match c with (args, b, a, es) => "
           "if negb (wf_prog args a) then 2%nat else if forallb (fun e => trace_eqb (trace b e []) (trace a e [])) es then 0%nat "
           "else if prog_has_min_dim b then 3%nat else 1%nat end")


def l2_eval(batch):
    """batch: list of (family, run_case result, envs) -> list of codes (0 ok, 1 trace differs, 2 ill-formed, 3 differs in known class)"""
    texts = []
    SH = 150
    for s in range(0, len(batch), SH):
        items = []
        for fam, r, envs in batch[s:s + SH]:
            args, b = r["before"]
            _, a = r["after"]
            items.append(f"({args}, {b}, {a}, {coqlist(env_lit(args, fam, e) for e in envs)})")
        texts.append(HEADER + f"Definition cases : list (list var * list op * list op * list env) := {coqlist(items)}.\nEval vm_compute in map ({L2_TEST}) cases.\n")
    codes = []
    for ok, out in eval_sections("c17l2_", texts):
        if not ok:
            raise RuntimeError("L2 cases file failed: " + out[-1500:])
        codes += out
    assert len(codes) == len(batch), (len(codes), len(batch))
    return codes


def show_traces(fam, r, env):
    args, b = r["before"]
    _, a = r["after"]
    e = env_lit(args, fam, env)
    txt = HEADER + f"Eval vm_compute in (trace {b} {e} []).\nEval vm_compute in (trace {a} {e} []).\n"
    ok, out = vlib.coq_eval("c17show", txt, timeout=300)
    return out[-3000:]


def search(ctx, deep=False):
    rng = ctx.rng
    n = ctx.n(220, 3000) * (2 if deep else 1)
    batch = []
    crashes = []
    todo = [("canon", t) for t in CORPUS["canon"]] + [("reuse", t) for t in CORPUS["reuse"]]
    for i in range(n):
        fam = "canon" if i % 2 == 0 else "reuse"
        todo.append((fam, gen_text(rng, fam)))
    for fam, text in todo:
        r = run_case(text, fam, record=(fam == "reuse"))
        if "error" in r:
            kind = crash_kind(r)
            ctx.count({"L2": fam, "error": r["error"]}, False, None, "L2-" + kind)
            if kind != "unsupported":
                crashes.append((fam, r))
            continue
        envs = inputs_for(rng, fam, 4)
        changed = r["before"][1] != r["after"][1]
        ctx.count({"L2": fam, "program": text[:400], "envs": envs}, changed, text, "L2-" + fam)
        batch.append((fam, r, envs))
    codes = l2_eval(batch)
    fails = []
    seen = set()
    for fam, r in unexcused(crashes):
        # the pass raised (other than the deliberate refusal on its class) or produced IR that does not verify
        if ("pass-crashed", None) not in seen:
            seen.add(("pass-crashed", None))
            fails.append({"what": "pass-crashed", "klass": None, "family": fam, "program": r["text"], "error": r["error"], "envs": []})
    for (fam, r, envs), code in zip(batch, codes):
        if code == 0:
            continue
        klass = "move_dim_affine_min" if code == 3 else None   # an ill-formed result (code 2) is never excused
        what = {1: "trace-differs", 2: "result-not-well-formed-ssa", 3: "trace-differs"}[code]
        if (what, klass) in seen:
            continue
        seen.add((what, klass))
        f = {"what": what, "klass": klass, "family": fam, "program": r["text"], "after": r["after_text"], "envs": envs}
        if klass is None:
            f["traces"] = show_traces(fam, r, envs[0])
        fails.append(f)
    return fails


def replay_known(ctx, entry):
    w = entry["witness"]
    r = run_case(w["program"], w["family"], record=False)
    if "error" in r:
        return False
    codes = l2_eval([(w["family"], r, [tuple(e) for e in w["envs"]])])
    return codes[0] == 3


def replay(ctx, obj):
    f = obj.get("failure")
    if not f:
        print("no failing input recorded; broken obligations:", json.dumps(obj.get("no_longer_checks"), default=str)[:3000])
        return 1
    r = run_case(f["program"], f["family"], record=False)
    print("program:\n" + f["program"])
    if "error" in r:
        print("pass failed:", r["error"])
        return 1
    print("after the pass:\n" + r["after_text"])
    envs = [tuple(e) for e in f["envs"]]
    codes = l2_eval([(f["family"], r, envs)])
    print("verdict:", {0: "traces equal", 1: "TRACE DIFFERS", 2: "RESULT NOT WELL-FORMED SSA", 3: "TRACE DIFFERS (known class move_dim_affine_min)"}[codes[0]])
    for e in envs:
        print("env", e)
        print(show_traces(f["family"], r, e))
    return 0 if codes[0] == 0 else 1
