"""C18 — kernel recognition and expansion preserve the scalar function.

(H) hand model coq/Model/C18Kernel.v (+ C18FixedWidth.v) of
  snaxc/transforms/convert_linalg_to_kernel.py   (check_kernel_equivalence, ParseLinalgBody)
  snaxc/dialects/kernel.py                        (equivalent_region of mul/add/mac/qmac)
  snaxc/transforms/convert_kernel_to_linalg.py   (LowerLinalgBody, LowerRescale)
  snaxc/transforms/dispatch_kernels.py           (DispatchTemplatePattern matching loops)

L1  model vs code, compared inside Coq: recognise(body) vs what convert-linalg-to-kernel does to the body;
    equivalent_region(k, tys) vs the body convert-kernel-to-linalg produces; rescale_region(p) vs the body
    LowerRescale produces; dispatch(accs, k, tys) vs the library_call DispatchTemplatePattern sets (on the
    real accelerator tables and on random tables).
    Also: expand_kbody(kb) vs what convert-kernel-to-linalg makes of kernel ops with arbitrary wiring (permuted /
    duplicated operands, extra block arguments, bodies that yield a block argument); rescale_region_for 32 vs the
    expansion of kernel.rescale (i32) -> i32; golden_rescale vs the numpy golden model (in the L2 cases file).
L2  the property on the real output, no model of the passes: the real body before recognition and the real
    body after expansion are evaluated by the Coq fixed-width evaluator on extreme and random scalars and
    compared with the kernel's arithmetic formula; a dispatched kernel must be declared (checked on the
    real Python objects); the real rescale expansion is compared with the repo's golden model
    (util/gemmx/simd_golden_model.py), mismatches classified per channel by the Coq predicates `rescale_safe_pc` / `rescale_safe_w`.
"""
from __future__ import annotations

import itertools
import json
import sys

import vlib
from vlib import coqlist, zlit

PROPERTY = "C18"
MODEL_TARGETS = ["Model/C18Kernel.vo", "Model/C18Wiring.vo"]
RULE = ("linalg.generic bodies over arith.addi/muli/subi/extsi with 1-4 inputs + 1 output of widths 8/16/32/64: "
        "exhaustive for <= 2 ops over the listed type configurations (<= 3 in thorough), random typed DAGs up to 6 ops, "
        "and near misses of every kernel region (operands swapped / rewired, kind changed, other value yielded, "
        "dead op inserted, extsi order changed); scalar inputs: min, max, -1, 0, 1 of each width + random; "
        "kernel ops with arbitrary wiring: every kernel/width configuration canonically wired plus random permuted / duplicated "
        "operands of matching type, 0-2 extra block arguments, yield of the kernel result or of a block argument of the output type; "
        "dispatch: the real snax_alu/snax_gemmx tables and random accelerator tables (12 % of the entries with a mis-declared "
        "number of types); rescale (i32)->i8 and (i32)->i32: random parameter "
        "sets incl. double rounding and extreme inputs. Non-trivial = recognised / expanded / dispatched cases; "
        "distinct = distinct bodies / parameter sets")
TRUSTED_BASE = [
    "Coq 8.16.1 kernel + vm_compute (no native_compute)",
    "hand models coq/Model/C18FixedWidth.v, coq/Model/C18Kernel.v, coq/Model/C18Wiring.v, tied by L1/L2 (this harness)",
    "harness/props/c18.py: xDSL body -> abstract body converter (structural), generators, Coq-literal printer; harness/xdsl_compat.py",
    "xDSL 0.70 parser/rewriter and arith op constructors (result type of a binary op = type of its first operand); numpy (golden model)",
]
ASSUMPTIONS = [
    "scalars are signed representatives in Z; arith.extsi keeps the representative (valid for in-range operands of verified IR)",
    "recognise_sound_typed assumes the recognised body is valid IR (body_typed: equal operand types for add/mul/sub, widening extsi, yielded type = output type); L1 checks body_typed on every verified generated body",
    "arith overflow flags / poison are not modelled; only add/mul/sub/extsi (+ trunci/shrsi/minsi/maxsi for the rescale expansion)",
    "integer types are modelled by their widths (signedness ignored); operands of a kernel op are block arguments of the linalg body (captured outer values are not modelled)",
    "class rescale_not_safe (F18) is entirely a Gallina predicate: rescale_safe_pc (per-channel multiplier/shift arrays, theorem C18_rescale_pc_expand_vs_golden) and rescale_safe_w (result width, theorem C18_rescale_for_vs_golden); every channel of the numpy golden model is compared inside Coq",
    "the '_stream' suffix of library_call (static shapes on a streamer accelerator) is not modelled; only the chosen accelerator",
    "golden model of the rescale = util/gemmx/simd_golden_model.py on an int64 input array (numpy semantics modelled by hand: int32 casts wrap)",
]

WIDTHS = [8, 16, 32, 64]
# witness of the known finding F-C18-3 (class rescale_result_not_i8): kernel.rescale (i32) -> i32, clamp +-1000
W32 = {"params": dict(zp_in=0, zp_out=0, mults=[1], shifts=[1], max=1000, min=-1000, dr=False), "x": 600, "outw": 32}
KNAMES = {"kernel.mul": "KMulK", "kernel.add": "KAddK", "kernel.mac": "KMacK", "kernel.qmac": "KQMacK", "kernel.rescale": "KRescaleK"}
HEADER = "From Snax Require Import Base.Prelude Model.C18FixedWidth Model.C18Kernel Model.C18Wiring.\nLocal Open Scope nat_scope.\n"


class Unsupported(Exception):
    pass


# ---------------------------------------------------------------------------------------------
# abstract bodies (python side): argtys, ops=[(kind, rty, [src])], yielded=[src]; src = ('a', i) | ('r', i)

ARITH = {"add": "arith.addi", "mul": "arith.muli", "sub": "arith.subi"}
KIND = {"add": "KAdd", "mul": "KMul", "sub": "KSub", "ext": "KExt", "trunc": "KTrunc", "shr": "KShrS", "min": "KMinS", "max": "KMaxS"}


def src_lit(s):
    if s[0] == "a":
        return f"SArg {s[1]}"
    if s[0] == "r":
        return f"SRes {s[1]}"
    return f"SCst {zlit(s[1])}"


def body_lit(b):
    argtys, ops, yl = b
    return ("(mkBody " + coqlist(zlit(t) for t in argtys) + " "
            + coqlist(f"(mkOp {KIND[k]} {zlit(r)} {coqlist(src_lit(s) for s in srcs)})" for (k, r, srcs) in ops)
            + " " + coqlist(src_lit(s) for s in yl) + ")")


def width_of(b, s):
    argtys, ops, _ = b
    return argtys[s[1]] if s[0] == "a" else ops[s[1]][1]


def body_mlir(b, name):
    argtys, ops, yl = b
    n = len(argtys)
    args = [f"%x{i}" for i in range(n)]

    def nm(s):
        return args[s[1]] if s[0] == "a" else f"%r{s[1]}"
    lines = []
    for i, (k, r, srcs) in enumerate(ops):
        if k == "ext":
            lines.append(f"      %r{i} = arith.extsi {nm(srcs[0])} : i{width_of(b, srcs[0])} to i{r}")
        else:
            lines.append(f"      %r{i} = {ARITH[k]} {nm(srcs[0])}, {nm(srcs[1])} : i{r}")
    lines.append(f"      linalg.yield {nm(yl[0])} : i{width_of(b, yl[0])}")
    mems = [f"memref<8xi{t}>" for t in argtys]
    fargs = ", ".join(f"%m{i} : {mems[i]}" for i in range(n))
    maps = ", ".join(["affine_map<(d0) -> (d0)>"] * n)
    ins = ", ".join(f"%m{i}" for i in range(n - 1))
    return (f"  func.func @{name}({fargs}) {{\n"
            f"    linalg.generic {{indexing_maps = [{maps}], iterator_types = [\"parallel\"]}} "
            f"ins({ins} : {', '.join(mems[:-1])}) outs(%m{n - 1} : {mems[-1]}) {{\n"
            f"    ^bb0({', '.join(f'{args[i]} : i{argtys[i]}' for i in range(n))}):\n"
            + "\n".join(lines) + "\n    }\n    func.return\n  }\n")


def valid(b):
    argtys, ops, yl = b
    for i, (k, r, srcs) in enumerate(ops):
        for s in srcs:
            if s[0] == "r" and s[1] >= i:
                return False
        ws = [width_of(b, s) for s in srcs]
        if k == "ext":
            if not ws[0] < r:
                return False
        elif not (ws[0] == ws[1] == r):
            return False
    return width_of(b, yl[0]) == argtys[-1]


def enum_bodies(argtys, nops):
    """all valid typed bodies with exactly nops ops over add/mul/sub/ext"""
    def values(ops):
        return [("a", i) for i in range(len(argtys))] + [("r", i) for i in range(len(ops))]

    def w(ops, s):
        return argtys[s[1]] if s[0] == "a" else ops[s[1]][1]

    def rec(ops):
        if len(ops) == nops:
            for y in values(ops):
                if w(ops, y) == argtys[-1]:
                    yield (list(argtys), list(ops), [y])
            return
        vs = values(ops)
        for a in vs:
            for b_ in vs:
                if w(ops, a) == w(ops, b_):
                    for k in ("add", "mul", "sub"):
                        yield from rec(ops + [(k, w(ops, a), [a, b_])])
            for r in WIDTHS:
                if w(ops, a) < r:
                    yield from rec(ops + [("ext", r, [a])])
    yield from rec([])


def region_py(k, tys):
    """python copy of the kernel regions, only used to seed the near-miss generator"""
    if k == "mul":
        return (list(tys), [("mul", tys[0], [("a", 0), ("a", 1)])], [("r", 0)])
    if k == "add":
        return (list(tys), [("add", tys[0], [("a", 0), ("a", 1)])], [("r", 0)])
    if k == "mac":
        if tys[0] == tys[2]:
            return (list(tys), [("mul", tys[0], [("a", 0), ("a", 1)]), ("add", tys[2], [("a", 2), ("r", 0)])], [("r", 1)])
        return (list(tys), [("ext", tys[2], [("a", 0)]), ("ext", tys[2], [("a", 1)]), ("mul", tys[2], [("r", 0), ("r", 1)]),
                            ("add", tys[2], [("a", 2), ("r", 2)])], [("r", 3)])
    return (list(tys), [("ext", tys[2], [("a", 0)]), ("sub", tys[2], [("r", 0), ("a", 2)]), ("ext", tys[3], [("a", 1)]),
                        ("sub", tys[3], [("r", 2), ("a", 3)]), ("mul", tys[2], [("r", 1), ("r", 3)]),
                        ("add", tys[4], [("a", 4), ("r", 4)])], [("r", 5)])


SEEDS = [("mul", [8, 8, 8]), ("mul", [64, 64, 64]), ("add", [32, 32, 32]), ("add", [64, 64, 64]), ("mac", [32, 32, 32]),
         ("mac", [8, 8, 32]), ("mac", [16, 16, 64]), ("mac", [8, 8, 8]), ("qmac", [8, 8, 32, 32, 32]), ("qmac", [8, 16, 64, 64, 64])]


def mutate(rng, b):
    argtys, ops, yl = [list(b[0]), [(k, r, list(s)) for (k, r, s) in b[1]], list(b[2])]
    for _ in range(rng.choice([1, 1, 2])):
        c = rng.choice(["swap", "rewire", "kind", "yield", "dead", "reorder", "argty"])
        if c == "swap" and ops:
            i = rng.randrange(len(ops))
            if len(ops[i][2]) == 2:
                ops[i] = (ops[i][0], ops[i][1], ops[i][2][::-1])
        elif c == "rewire" and ops:
            i = rng.randrange(len(ops))
            j = rng.randrange(len(ops[i][2]))
            cands = [("a", t) for t in range(len(argtys))] + [("r", t) for t in range(i)]
            ops[i][2][j] = rng.choice(cands)
        elif c == "kind" and ops:
            i = rng.randrange(len(ops))
            if ops[i][0] != "ext":
                ops[i] = (rng.choice(["add", "mul", "sub"]), ops[i][1], ops[i][2])
            else:
                ops[i] = ("ext", rng.choice(WIDTHS), ops[i][2])
        elif c == "yield":
            yl = [rng.choice([("a", t) for t in range(len(argtys))] + [("r", t) for t in range(len(ops))])]
        elif c == "dead":
            i = rng.randrange(len(ops) + 1)
            a = rng.choice([("a", t) for t in range(len(argtys))] + [("r", t) for t in range(i)])
            newop = (rng.choice(["add", "mul", "sub"]), width_of((argtys, ops, yl), a), [a, a])

            def sh(s):
                return ("r", s[1] + 1) if s[0] == "r" and s[1] >= i else s
            ops = [(k, r, [sh(s) for s in srcs]) for (k, r, srcs) in ops]
            ops.insert(i, newop)
            yl = [sh(s) for s in yl]
        elif c == "reorder" and len(ops) >= 2:
            i = rng.randrange(len(ops) - 1)
            if all(not (s[0] == "r" and s[1] == i) for s in ops[i + 1][2]):
                def sw(s):
                    if s[0] == "r" and s[1] == i:
                        return ("r", i + 1)
                    if s[0] == "r" and s[1] == i + 1:
                        return ("r", i)
                    return s
                ops[i], ops[i + 1] = ops[i + 1], ops[i]
                ops = [(k, r, [sw(s) for s in srcs]) for (k, r, srcs) in ops]
                yl = [sw(s) for s in yl]
        elif c == "argty":
            i = rng.randrange(len(argtys))
            argtys[i] = rng.choice(WIDTHS)
    return (argtys, ops, yl)


def random_body(rng):
    n_in = rng.choice([1, 2, 2, 2, 3, 4, 4])
    argtys = [rng.choice(WIDTHS) for _ in range(n_in + 1)]
    if rng.random() < 0.5:
        w = rng.choice(WIDTHS)
        argtys = [w] * (n_in + 1)
    ops = []
    for i in range(rng.choice([1, 2, 3, 4, 5, 6])):
        vs = [("a", t) for t in range(len(argtys))] + [("r", t) for t in range(len(ops))]
        b = (argtys, ops, [])
        a = rng.choice(vs)
        wa = width_of(b, a)
        if rng.random() < 0.3 and wa < 64:
            ops.append(("ext", rng.choice([x for x in WIDTHS if x > wa]), [a]))
        else:
            same = [v for v in vs if width_of(b, v) == wa]
            ops.append((rng.choice(["add", "mul", "sub"]), wa, [a, rng.choice(same)]))
    b = (argtys, ops, [])
    ys = [v for v in [("a", t) for t in range(len(argtys))] + [("r", t) for t in range(len(ops))] if width_of(b, v) == argtys[-1]]
    return (argtys, ops, [rng.choice(ys)])


def gen_bodies(ctx):
    rng = ctx.rng
    out = []
    # exhaustive small scope
    cfgs1 = [[8, 8, 8], [64, 64, 64], [32, 32, 32], [8, 8, 32], [8, 32], [16, 16, 16, 16]]
    if ctx.thorough:
        cfgs1 += [[16, 16, 16], [8, 16, 32], [32, 8], [8, 8, 32, 32, 32]]
    for tys in cfgs1:
        for n in (0, 1):
            out += list(enum_bodies(tys, n))
    ex2 = []
    for tys in ([32, 32, 32], [8, 8, 32]) + (([64, 64, 64], [8, 8, 8], [16, 16, 64]) if ctx.thorough else ()):
        ex2 += list(enum_bodies(list(tys), 2))
    if ctx.thorough:
        out += ex2
        ex3 = list(enum_bodies([32, 32, 32], 3))
        rng.shuffle(ex3)
        out += ex3[:6000]
    else:
        rng.shuffle(ex2)
        out += ex2[:500]
    # the regions themselves and near misses
    for k, tys in SEEDS:
        base = region_py(k, tys)
        out.append(base)
        for _ in range(ctx.n(25, 300)):
            m = mutate(rng, base)
            if valid(m):
                out.append(m)
    for _ in range(ctx.n(150, 3000)):
        b = random_body(rng)
        if valid(b):
            out.append(b)
    # dedup
    seen, res = set(), []
    for b in out:
        k = json.dumps(b)
        if k not in seen:
            seen.add(k)
            res.append(b)
    return res


# ---------------------------------------------------------------------------------------------
# real passes

_X = None


def xmain():
    global _X
    if _X is None:
        from snaxc.tools.snax_opt_main import SNAXOptMain
        _X = SNAXOptMain(args=[str(vlib.VERIF / "notes" / "probe_c18_wiring_and_types.mlir")])
    return _X


def parse(text):
    from xdsl.parser import Parser
    return Parser(xmain().ctx, text).parse_module()


def int_width(t):
    from xdsl.dialects.builtin import IntegerType
    if not isinstance(t, IntegerType):
        raise Unsupported(str(t))
    return t.width.data


def conv_body(block):
    """real linalg body -> ('kernel', name, operand arg indices, argtys) | ('body', (argtys, ops, yielded))"""
    from xdsl.dialects import arith, linalg
    from xdsl.ir import BlockArgument, OpResult
    argtys = [int_width(a.type) for a in block.args]
    ops_ = list(block.ops)
    pos = {id(o): i for i, o in enumerate(ops_)}

    def src(v):
        if isinstance(v, BlockArgument) and v.block is block:
            return ("a", v.index)
        if isinstance(v, OpResult) and id(v.op) in pos:
            return ("r", pos[id(v.op)])
        if isinstance(v, OpResult) and isinstance(v.op, arith.ConstantOp):
            return ("c", v.op.value.value.data)
        raise Unsupported("operand")
    if ops_ and ops_[0].name.startswith("kernel."):
        if len(ops_) != 2 or not isinstance(ops_[1], linalg.YieldOp):
            raise Unsupported("fused kernel body")
        return ("kernel", ops_[0].name, [src(o) for o in ops_[0].operands], argtys, ops_[0])
    kinds = {arith.AddiOp: "add", arith.MuliOp: "mul", arith.SubiOp: "sub", arith.ExtSIOp: "ext", arith.TruncIOp: "trunc",
             arith.ShRSIOp: "shr", arith.MinSIOp: "min", arith.MaxSIOp: "max"}
    ops = []
    yl = None
    for o in ops_:
        if isinstance(o, linalg.YieldOp):
            yl = [src(v) for v in o.operands]
            continue
        if type(o) not in kinds:
            raise Unsupported(o.name)
        ops.append((kinds[type(o)], int_width(o.results[0].type), [src(v) for v in o.operands]))
    return ("body", (argtys, ops, yl))


def generics(mod):
    from xdsl.dialects import linalg
    return [o for o in mod.walk() if isinstance(o, linalg.GenericOp)]


def run_items(texts, make_pass, chunk=60):
    """texts: one func.func (holding one linalg.generic) each -> per item (before_conv, after_conv).  A pass that raises,
    or whose result does not verify / cannot be converted, gives after_conv = ('error', message, text) for the items
    that fail on their own (so that the failure names a concrete program instead of crashing the harness)."""
    def go(items):
        mod = parse("builtin.module {\n" + "".join(items) + "}\n")
        mod.verify()
        before = [conv_body(g.body.block) for g in generics(mod)]
        make_pass().apply(xmain().ctx, mod)
        mod.verify()
        after = [conv_body(g.body.block) for g in generics(mod)]
        assert len(before) == len(after) == len(items)
        return list(zip(before, after))
    out = []
    for s0 in range(0, len(texts), chunk):
        items = texts[s0:s0 + chunk]
        try:
            out += go(items)
        except Exception:
            for t in items:
                try:
                    out += go([t])
                except Exception as e:
                    out.append((None, ("error", f"{type(e).__name__}: {str(e)[:300]}", t)))
    return out


def run_recognition(bodies):
    """-> list of (body, before_conv, after_conv)"""
    from snaxc.transforms.convert_linalg_to_kernel import ConvertLinalgToKernel
    r = run_items([body_mlir(b, f"f{i}") for i, b in enumerate(bodies)], ConvertLinalgToKernel)
    return [(b, bf, af) for b, (bf, af) in zip(bodies, r)]


def kernel_text(kname, tys, name):
    n = len(tys)
    args = [f"%x{i}" for i in range(n)]
    if kname == "qmac":
        kop = (f"%k = kernel.qmac %x0, %x1 zp_lhs : %x2 zp_rhs : %x3 : i{tys[0]}, i{tys[1]}, i{tys[2]}, i{tys[3]} -> i{tys[4]}")
    else:
        kop = f"%k = kernel.{kname} %x0, %x1 : i{tys[0]}, i{tys[1]} -> i{tys[2]}"
    mems = [f"memref<8xi{t}>" for t in tys]
    fargs = ", ".join(f"%m{i} : {mems[i]}" for i in range(n))
    maps = ", ".join(["affine_map<(d0) -> (d0)>"] * n)
    ins = ", ".join(f"%m{i}" for i in range(n - 1))
    return (f"  func.func @{name}({fargs}) {{\n"
            f"    linalg.generic {{indexing_maps = [{maps}], iterator_types = [\"parallel\"]}} "
            f"ins({ins} : {', '.join(mems[:-1])}) outs(%m{n - 1} : {mems[-1]}) {{\n"
            f"    ^bb0({', '.join(f'{args[i]} : i{tys[i]}' for i in range(n))}):\n"
            f"      {kop}\n      linalg.yield %k : i{tys[-1]}\n    }}\n    func.return\n  }}\n")


def kernel_cfgs(ctx):
    rng = ctx.rng
    cfgs = []
    for w in WIDTHS:
        cfgs += [("mul", [w, w, w]), ("add", [w, w, w]), ("mac", [w, w, w])]
    for a in WIDTHS:
        for b in WIDTHS:
            for c in WIDTHS:
                if a < c and b < c:
                    cfgs.append(("mac", [a, b, c]))
    for a in WIDTHS:
        for b in WIDTHS:
            for c in WIDTHS:
                if a < c and b < c:
                    cfgs.append(("qmac", [a, b, c, c, c]))
    return cfgs


def run_expansion(cfgs):
    from snaxc.transforms.convert_kernel_to_linalg import ConvertKernelToLinalg
    return [af for _, af in run_items([kernel_text(k, tys, f"f{i}") for i, (k, tys) in enumerate(cfgs)], ConvertKernelToLinalg, 200)]


# kernel ops with arbitrary wiring --------------------------------------------------------------
# kb = (argtys, kname, kres, operand block-arg indices, yielded: [None | block-arg index])


def kb_text(kb, name):
    argtys, kname, kres, ko, ky = kb
    n = len(argtys)
    args = [f"%x{i}" for i in range(n)]
    o = [args[i] for i in ko]
    t = [f"i{argtys[i]}" for i in ko]
    if kname == "qmac":
        kop = f"%k = kernel.qmac {o[0]}, {o[1]} zp_lhs : {o[2]} zp_rhs : {o[3]} : {t[0]}, {t[1]}, {t[2]}, {t[3]} -> i{kres}"
    else:
        kop = f"%k = kernel.{kname} {o[0]}, {o[1]} : {t[0]}, {t[1]} -> i{kres}"
    y = "%k" if ky[0] is None else args[ky[0]]
    mems = [f"memref<8xi{t_}>" for t_ in argtys]
    fargs = ", ".join(f"%m{i} : {mems[i]}" for i in range(n))
    maps = ", ".join(["affine_map<(d0) -> (d0)>"] * n)
    ins = ", ".join(f"%m{i}" for i in range(n - 1))
    return (f"  func.func @{name}({fargs}) {{\n"
            f"    linalg.generic {{indexing_maps = [{maps}], iterator_types = [\"parallel\"]}} "
            f"ins({ins} : {', '.join(mems[:-1])}) outs(%m{n - 1} : {mems[-1]}) {{\n"
            f"    ^bb0({', '.join(f'{args[i]} : i{argtys[i]}' for i in range(n))}):\n"
            f"      {kop}\n      linalg.yield {y} : i{argtys[-1]}\n    }}\n    func.return\n  }}\n")


def kb_lit(kb):
    argtys, kname, kres, ko, ky = kb
    return (f"(mkKBody {coqlist(zlit(t) for t in argtys)} {ktag(kname)} {zlit(kres)} {coqlist(str(i) for i in ko)} "
            f"{coqlist('None' if y is None else f'(Some {y})' for y in ky)})")


def gen_kbodies(ctx):
    """kernel ops reading permuted / duplicated block arguments, extra unused block arguments, bodies that yield a
    block argument instead of the kernel result - and the canonical wiring of every configuration"""
    rng = ctx.rng
    out = []
    cfgs = kernel_cfgs(ctx)
    for k, tys in cfgs:
        out.append((list(tys), k, tys[-1], list(range(len(tys) - 1)), [None]))
    for _ in range(ctx.n(160, 1500)):
        k, tys = rng.choice(cfgs)
        nop = len(tys) - 1
        argtys = list(tys[:-1])
        # extra (unused) inputs
        for _ in range(rng.choice([0, 0, 1, 2])):
            argtys.insert(rng.randrange(len(argtys) + 1), rng.choice(WIDTHS + [tys[0], tys[-1]]))
        argtys.append(tys[-1])
        ko = []
        for j in range(nop):
            cands = [i for i, t in enumerate(argtys) if t == tys[j]]
            ko.append(rng.choice(cands))
        r = rng.random()
        if r < 0.7:
            ky = [None]
        else:
            ky = [rng.choice([i for i, t in enumerate(argtys) if t == argtys[-1]])]
        out.append((argtys, k, tys[-1], ko, ky))
    seen, res = set(), []
    for kb in out:
        key = json.dumps(kb)
        if key not in seen:
            seen.add(key)
            res.append(kb)
    return res


def run_kbodies(kbs):
    from snaxc.transforms.convert_kernel_to_linalg import ConvertKernelToLinalg
    return [af for _, af in run_items([kb_text(kb, f"f{i}") for i, kb in enumerate(kbs)], ConvertKernelToLinalg, 80)]


def rescale_text(p, name, outw=8):
    if outw != 8:
        return rescale_text(p, name).replace("memref<8xi8>", f"memref<8xi{outw}>").replace("%x1 : i8", f"%x1 : i{outw}") \
            .replace("-> i8", f"-> i{outw}").replace("%k : i8", f"%k : i{outw}")
    attrs = (f"input_zp = {p['zp_in']} : i32, output_zp = {p['zp_out']} : i32, multiplier = array<i32: {', '.join(map(str, p['mults']))}>, "
             f"shift = array<i32: {', '.join(map(str, p['shifts']))}>, max_int = {p['max']} : i32, min_int = {p['min']} : i32, "
             f"double_round = {'true' if p['dr'] else 'false'}")
    return (f"  func.func @{name}(%m0 : memref<8xi32>, %m1 : memref<8xi8>) {{\n"
            f"    linalg.generic {{indexing_maps = [affine_map<(d0) -> (d0)>, affine_map<(d0) -> (d0)>], iterator_types = [\"parallel\"]}} "
            f"ins(%m0 : memref<8xi32>) outs(%m1 : memref<8xi8>) {{\n"
            f"    ^bb0(%x0 : i32, %x1 : i8):\n"
            f"      %k = kernel.rescale %x0 {{{attrs}}} : (i32) -> i8\n      linalg.yield %k : i8\n    }}\n    func.return\n  }}\n")


def gen_rparams(rng, n):
    out = [dict(zp_in=0, zp_out=0, mults=[1], shifts=[1], max=127, min=-128, dr=True),
           dict(zp_in=3, zp_out=-5, mults=[1140768826], shifts=[38], max=127, min=-128, dr=False)]
    for _ in range(n):
        sh = rng.choice([1, 2, 7, 16, 31, 32, 38, 40, 47, 63])
        nch = rng.choice([1, 1, 1, 2, 3])
        m0 = rng.choice([1, 3, 1 << 20, 1140768826, (1 << 31) - 1, 1073741824, 5, -7])
        mults = [m0] + [rng.choice([m0, m0, 17, 1 << 30]) for _ in range(nch - 1)]
        shifts = [sh] + [rng.choice([sh, sh, 12, 40]) for _ in range(nch - 1)]
        out.append(dict(zp_in=rng.choice([0, 0, 1, -3, 127, -128, 1000]), zp_out=rng.choice([0, 0, 5, -5, -128, 127]),
                        mults=mults, shifts=shifts, max=rng.choice([127, 127, 100, 0]), min=rng.choice([-128, -128, -100, 0]),
                        dr=rng.random() < 0.3))
    return out


def run_rescale(ps, outw=8):
    from snaxc.transforms.convert_kernel_to_linalg import ConvertKernelToLinalg
    return [af for _, af in run_items([rescale_text(p, f"f{i}", outw) for i, p in enumerate(ps)], ConvertKernelToLinalg, 200)]


def rp_lit(p):
    return (f"(mkR {zlit(p['zp_in'])} {zlit(p['zp_out'])} {zlit(p['mults'][0])} {zlit(p['shifts'][0])} {zlit(p['max'])} {zlit(p['min'])} "
            f"{'true' if p['dr'] else 'false'})")


def rpc_lit(p):
    return (f"(mkRpc {zlit(p['zp_in'])} {zlit(p['zp_out'])} {vlib.zlist(p['mults'])} {vlib.zlist(p['shifts'])} {zlit(p['max'])} {zlit(p['min'])} "
            f"{'true' if p['dr'] else 'false'})")


# dispatch ------------------------------------------------------------------------------------
class FakeAcc:
    def __init__(self, name, supported):
        self.name = name
        self.supported_kernels = supported


def kernel_classes():
    from snaxc.dialects import kernel
    return {"mul": kernel.MulOp, "add": kernel.AddOp, "mac": kernel.MacOp, "qmac": kernel.QMacOp}


def ktag(kname):
    return {"mul": "KMulK", "add": "KAddK", "mac": "KMacK", "qmac": "KQMacK", "rescale": "KRescaleK"}[kname]


def real_tables():
    from snaxc.dialects import kernel
    names = {kernel.MulOp: "mul", kernel.AddOp: "add", kernel.MacOp: "mac", kernel.QMacOp: "qmac", kernel.RescaleOp: "rescale"}
    tabs = []
    for nme in ("snax_alu", "snax_gemmx"):
        acc = xmain().ctx.get_acc(nme)
        tabs.append((nme, acc, [(names[s.kernel_type], [int_width(t) for t in s.operand_types]) for s in acc.supported_kernels]))
    return tabs


def run_dispatch(accs, kname, tys):
    """accs: list of objects with .name/.supported_kernels -> (library_call or None, 'error' flag)"""
    from xdsl.pattern_rewriter import PatternRewriteWalker
    from snaxc.transforms.dispatch_kernels import DispatchTemplatePattern
    mod = parse("builtin.module {\n" + kernel_text(kname, tys, "f") + "}\n")
    try:
        PatternRewriteWalker(DispatchTemplatePattern(accs)).rewrite_module(mod)
    except ValueError:
        return None, True
    g = generics(mod)[0]
    return (g.library_call.data if g.library_call else None), False


def acc_lit(i, table):
    return f"(mkAcc {i} " + coqlist(f"(mkSup {ktag(k)} {coqlist(zlit(t) for t in tys)})" for k, tys in table) + ")"


def gen_dispatch_cases(ctx):
    """-> list of (acc objects, tables[(name, [(k, tys)])], kname, tys)"""
    from xdsl.dialects.builtin import IntegerType
    from snaxc.accelerators.dispatching import SupportedKernel
    rng = ctx.rng
    kc = kernel_classes()
    cases = []
    rt = real_tables()
    kcf = kernel_cfgs(ctx)
    for k, tys in kcf:
        for order in ([0, 1], [1, 0], [0], [1]):
            sel = [rt[i] for i in order]
            cases.append(([a for (_, a, _) in sel], [(n, t) for (n, _, t) in sel], k, tys))
    for _ in range(ctx.n(150, 2000)):
        tabs, objs = [], []
        for ai in range(rng.choice([1, 2, 3, 4])):
            tab = []
            for _ in range(rng.choice([0, 1, 2, 3])):
                k = rng.choice(["mul", "add", "mac", "qmac"])
                n = 5 if k == "qmac" else 3
                w = rng.choice(WIDTHS)
                tys = [w] * n if rng.random() < 0.5 else [rng.choice([8, 32, 64]) for _ in range(n)]
                if rng.random() < 0.12:
                    # a mis-declared table entry (too short / too long): zip(strict=True) raises only when no
                    # mismatch is found before the shorter list ends
                    tys = tys[:-1] if rng.random() < 0.6 else tys + [rng.choice(WIDTHS)]
                tab.append((k, tys))
            tabs.append((f"acc{ai}", tab))
            objs.append(FakeAcc(f"acc{ai}", tuple(SupportedKernel(kc[k], [IntegerType(t) for t in tys]) for k, tys in tab)))
        # the query: mostly something some table declares, or a near miss of it
        allk = [kt for _, tab in tabs for kt in tab]
        if allk and rng.random() < 0.8:
            k, tys = rng.choice(allk)
            n = 5 if k == "qmac" else 3
            tys = (list(tys) + [tys[-1]] * n)[:n]   # the query itself always has the arity of the kernel op
            if rng.random() < 0.4:
                tys[rng.randrange(len(tys))] = rng.choice(WIDTHS)
        else:
            k, tys = rng.choice(kcf)
        cases.append((objs, tabs, k, tys))
    return cases


# ---------------------------------------------------------------------------------------------
# L1


def _eval_lists(name, texts):
    """Each text is HEADER + one definition + one Eval printing a list of nat.  Sections are packed into few
    files (coqc start-up dominates) with distinct definition names; returns one list per section."""
    files, cur, size = [], [], 0
    for i, t in enumerate(texts):
        body = t[len(HEADER):].replace("cases", f"cases{i}").replace("dres_eqb", f"dres_eqb{i}")
        if cur and size + len(body) > 400000:
            files.append(cur)
            cur, size = [], 0
        cur.append(body)
        size += len(body)
    if cur:
        files.append(cur)
    res = []
    for secs, (ok, out) in zip(files, vlib.coq_eval_many(name, [HEADER + "".join(f) for f in files], timeout=1200)):
        lists = vlib.parse_all_eval_lists(out)
        if not ok or len(lists) != len(secs):
            raise RuntimeError("cases file failed: " + out[-1500:])
        res += lists
    return res


def kernel_of(conv):
    return KNAMES[conv[1]] if conv[0] == "kernel" else None


def correspondence(ctx):
    dis = []
    # (1) recognition
    bodies = gen_bodies(ctx)
    rec = run_recognition(bodies)
    ctx.extra["_rec"] = rec
    cases, meta = [], []
    for b, before, after in rec:
        if after[0] == "error":
            dis.append({"name": "L1:pass-failed", "body": b, "error": after[1], "program": after[2]})
            continue
        if before[0] != "body" or before[1] != (b[0], b[1], b[2]):
            dis.append({"name": "L1:converter-roundtrip", "body": b, "converted": str(before)[:300]})
            continue
        k = kernel_of(after)
        if after[0] == "kernel" and after[2] != [("a", i) for i in range(len(b[0]) - 1)]:
            dis.append({"name": "L1:kernel-operands", "body": b, "after": str(after[:4])})
        if after[0] == "body" and after[1] != before[1]:
            dis.append({"name": "L1:unrecognised-body-changed", "body": b})
        cases.append(f"({body_lit(b)}, {'Some ' + k if k else 'None'})")
        meta.append({"body": b, "real": k})
        ctx.count({"L1": "recognise", "body": b, "real": k}, k is not None, json.dumps(b), "recognise-" + (k or "none"))
    SH = 400
    texts = [HEADER + f"Definition cases : list (body * option kernel) := {coqlist(cases[s:s + SH])}.\n"
             "Eval vm_compute in failing (fun c : body * option kernel => body_typed (fst c) && optk_eqb (recognise (fst c)) (snd c)) cases.\n"
             for s in range(0, len(cases), SH)]
    # (2) expansion
    cfgs = kernel_cfgs(ctx)
    exp = run_expansion(cfgs)
    ctx.extra["_exp"] = list(zip(cfgs, exp))
    ecases = []
    for (k, tys), conv in zip(cfgs, exp):
        if conv[0] != "body":
            dis.append({"name": "L1:not-expanded", "kernel": k, "tys": tys, **({"error": conv[1], "program": conv[2]} if conv[0] == "error" else {})})
            continue
        ecases.append(f"({ktag(k)}, {coqlist(zlit(t) for t in tys)}, {body_lit(conv[1])})")
        ctx.count({"L1": "expand", "kernel": k, "tys": tys}, True, f"exp{k}{tys}", "expand-" + k)
    texts.append(HEADER + f"Definition cases : list (kernel * list Z * body) := {coqlist(ecases)}.\n"
                 "Eval vm_compute in failing (fun c : kernel * list Z * body => match c with (k, tys, b) => "
                 "body_eqb_full (equivalent_region k tys) b && well_typed k tys end) cases.\n")
    # (2b) expansion of kernel ops with arbitrary wiring (permuted / duplicated operands, other yields)
    kbs = gen_kbodies(ctx)
    kex = run_kbodies(kbs)
    ctx.extra["_kbs"] = list(zip(kbs, kex))
    kcases, kmeta = [], []
    for kb, conv in zip(kbs, kex):
        canonical = kb[3] == list(range(len(kb[0]) - 1)) and kb[4] == [None]
        ctx.count({"L1": "expand-wired", "kbody": kb}, not canonical, "kb" + json.dumps(kb), "expand-wired-" + ("canonical" if canonical else "other"))
        if conv[0] != "body":
            dis.append({"name": "L1:not-expanded", "kbody": kb, **({"error": conv[1], "program": conv[2]} if conv[0] == "error" else {})})
            continue
        kcases.append(f"({kb_lit(kb)}, {body_lit(conv[1])})")
        kmeta.append({"kbody": kb, "real": conv[1]})
    texts.append(HEADER + f"Definition cases : list (kbody * body) := {coqlist(kcases)}.\n"
                 "Eval vm_compute in failing (fun c : kbody * body => body_eqb_full (expand_kbody (fst c)) (snd c) "
                 "&& well_typed (kk (fst c)) (ktys (fst c))) cases.\n")
    # (3) rescale expansion
    ps = gen_rparams(ctx.rng, ctx.n(40, 400))
    rex = run_rescale(ps)
    ctx.extra["_res"] = list(zip(ps, rex))
    rcases = []
    for p, conv in zip(ps, rex):
        rcases.append(f"({rp_lit(p)}, {body_lit(conv[1]) if conv[0] == 'body' else 'mkBody [] [] []'})")
        ctx.count({"L1": "rescale", "params": p}, True, json.dumps(p), "rescale-expand")
    texts.append(HEADER + f"Definition cases : list (rparams * body) := {coqlist(rcases)}.\n"
                 "Eval vm_compute in failing (fun c : rparams * body => body_eqb_full (rescale_region (fst c)) (snd c)) cases.\n")
    # (3b) the same for kernel.rescale (i32) -> i32 (F-C18-3 repaired: no truncation for an i32 result)
    ps32 = ps[:2] + [W32["params"]] + ps[2:ctx.n(10, 60)]
    rex32 = run_rescale(ps32, 32)
    ctx.extra["_res32"] = list(zip(ps32, rex32))
    r32cases = []
    for p_, conv in zip(ps32, rex32):
        r32cases.append(f"({rp_lit(p_)}, {body_lit(conv[1]) if conv[0] == 'body' else 'mkBody [] [] []'})")
        ctx.count({"L1": "rescale-i32", "params": p_}, True, "r32" + json.dumps(p_), "rescale-expand-i32")
    texts.append(HEADER + f"Definition cases : list (rparams * body) := {coqlist(r32cases)}.\n"
                 "Eval vm_compute in failing (fun c : rparams * body => body_eqb_full (rescale_region_for 32%Z (fst c)) (snd c)) cases.\n")
    # (4) dispatch
    dcases, dmeta = [], []
    dsp = gen_dispatch_cases(ctx)
    ctx.extra["_dsp"] = []
    for objs, tabs, k, tys in dsp:
        lib, err = run_dispatch(objs, k, tys)
        ctx.extra["_dsp"].append((objs, tabs, k, tys, lib, err))
        names = [n for n, _ in tabs]
        if err:
            want = "DErr"
        elif lib is None:
            want = "DOk None"
        else:
            base = lib[:-7] if lib.endswith("_stream") else lib
            if base not in names:
                dis.append({"name": "L1:dispatch-unknown-name", "lib": lib})
                continue
            want = f"DOk (Some {names.index(base)})"
        dcases.append(f"({coqlist(acc_lit(i, t) for i, (_, t) in enumerate(tabs))}, {ktag(k)}, {coqlist(zlit(t) for t in tys)}, {want})")
        dmeta.append({"tables": tabs, "kernel": k, "tys": tys, "real": lib, "error": err})
        ctx.count({"L1": "dispatch", "tables": tabs, "kernel": k, "tys": tys, "real": lib}, lib is not None, None, "dispatch-" + ("hit" if lib else "miss"))
    texts.append(HEADER + f"Definition cases : list (list accel * kernel * list Z * dres (option nat)) := {coqlist(dcases)}.\n"
                 "Definition dres_eqb (a b : dres (option nat)) : bool := match a, b with DErr, DErr => true "
                 "| DOk (Some x), DOk (Some y) => Nat.eqb x y | DOk None, DOk None => true | _, _ => false end.\n"
                 "Eval vm_compute in failing (fun c : list accel * kernel * list Z * dres (option nat) => match c with (accs, k, tys, r) => "
                 "dres_eqb (dispatch accs k tys) r end) cases.\n")
    lists = _eval_lists("c18l1_", texts)
    nrec = len(range(0, len(cases), SH))
    for si, bad in enumerate(lists[:nrec]):
        for idx in bad:
            dis.append({"name": "L1:recognise", **meta[si * SH + idx]})
    for idx in lists[nrec]:
        dis.append({"name": "L1:equivalent_region", "case": ecases[idx][:400]})
    for idx in lists[nrec + 1]:
        dis.append({"name": "L1:expand_kbody", **kmeta[idx]})
    for idx in lists[nrec + 2]:
        dis.append({"name": "L1:rescale_region", "params": ps[idx]})
    for idx in lists[nrec + 3]:
        dis.append({"name": "L1:rescale_region_i32", "params": ps32[idx]})
    for idx in lists[nrec + 4]:
        dis.append({"name": "L1:dispatch", **dmeta[idx]})
    for k in list(ctx.extra):
        if k.startswith("_"):
            setattr(ctx, "c18" + k, ctx.extra.pop(k))
    return dis


# ---------------------------------------------------------------------------------------------
# L2


def scalars(rng, tys, n):
    ext = []
    for t in tys:
        h = 1 << (t - 1)
        ext.append([-h, h - 1, -1, 0, 1, 2, -2, h // 2 + 1, -(h // 2) - 3])
    res = []
    for j in range(5):
        res.append([e[j] for e in ext])
    res.append([e[0] if i % 2 == 0 else e[1] for i, e in enumerate(ext)])
    res.append([e[1] if i % 2 == 0 else e[0] for i, e in enumerate(ext)])
    for _ in range(n):
        res.append([rng.choice(e) if rng.random() < 0.4 else rng.randrange(-(1 << (t - 1)), 1 << (t - 1)) for e, t in zip(ext, tys)])
    return res


L2_KTEST = ("fun c : body * kernel * list (list Z) => match c with (b, k, ins) => "
            "forallb (fun a => list_eqb Z.eqb (eval_body b a) [eval_kernel k (argtys b) a]) ins end")


def golden(p, x):
    import numpy as np
    gm = _golden_fn()
    mult = np.array(p["mults"][:1], dtype=np.int64) if len(p["mults"]) == 1 else np.array(p["mults"], dtype=np.int64)
    shift = np.array(p["shifts"][:1], dtype=np.int64) if len(p["shifts"]) == 1 else np.array(p["shifts"], dtype=np.int64)
    data = np.array([x] * len(mult), dtype=np.int64)
    with np.errstate(all="ignore"):
        out = gm(data, p["zp_in"], p["zp_out"], shift, p["max"], p["min"], 1 if p["dr"] else 0, mult)
    return [int(v) for v in np.asarray(out).reshape(-1)]


_GM = None


def _golden_fn():
    global _GM
    if _GM is None:
        d = str(vlib.REPO / "util" / "gemmx")
        if d not in sys.path:
            sys.path.insert(0, d)
        import importlib
        _GM = importlib.import_module("simd_golden_model").postprocessing_simd_golden_model
    return _GM


def tosa_text(p, clamp, outw, rm):
    t = ("builtin.module {\n"
         '%0 = "test.op"() : () -> tensor<?x8xi32>\n'
         f'%input_zp = "tosa.const"() <{{ values = dense<{p["zp_in"]}> : tensor<1xi32> }}> : () -> tensor<1xi32>\n'
         f'%output_zp = "tosa.const"() <{{ values = dense<{p["zp_out"]}> : tensor<1xi32> }}> : () -> tensor<1xi32>\n'
         f'%multiplier = "tosa.const"() <{{ values = dense<{p["mult"]}> : tensor<1xi32> }}> : () -> tensor<1xi32>\n'
         f'%shift = "tosa.const"() <{{ values = dense<{p["shift"]}> : tensor<1xi32> }}> : () -> tensor<1xi32>\n'
         f"%1 = tosa.rescale %0, %multiplier, %shift, %input_zp, %output_zp {{rounding_mode = {rm}, per_channel = false, scale32 = true, "
         f"input_unsigned = false, output_unsigned = false}} : (tensor<?x8xi32>, tensor<1xi32>, tensor<1xi32>, tensor<1xi32>, tensor<1xi32>) "
         f"-> tensor<?x8xi{outw}>\n")
    if clamp:
        t += (f"%2 = tosa.clamp %1 {{max_val = {clamp[1]} : i{outw}, min_val = {clamp[0]} : i{outw}}} : (tensor<?x8xi{outw}>) -> tensor<?x8xi{outw}>\n"
              f'"test.op"(%2) : (tensor<?x8xi{outw}>) -> ()\n')
    else:
        t += f'"test.op"(%1) : (tensor<?x8xi{outw}>) -> ()\n'
    return t + "}\n"


def check_tosa(ctx, n):
    """convert-tosa-to-kernel: the kernel.rescale that replaces tosa.rescale (+ tosa.clamp) must carry the parameters of
    clip((x - zp_in) * mult >> shift + zp_out, lo, hi): lo/hi = the clamp bounds, or the signed range of the output type."""
    from snaxc.transforms.convert_tosa_to_kernel import ConvertTosaToKernelPass
    rng = ctx.rng
    fails = []
    for i in range(n):
        p = dict(zp_in=rng.choice([0, 3, -7, 100]), zp_out=rng.choice([0, -128, 5, 127]), mult=rng.choice([1085889731, 1 << 30, 12345, 1]),
                 shift=rng.choice([37, 31, 40, 12, 1]))
        outw = 8 if i % 4 != 3 else 32
        h = 1 << (outw - 1)
        clamp = None if i % 2 == 0 else tuple(sorted((rng.randrange(-h, h), rng.randrange(-h, h))))
        rm = rng.choice(["DOUBLE_ROUND", "SINGLE_ROUND"])
        try:
            mod = parse(tosa_text(p, clamp, outw, rm))
            ConvertTosaToKernelPass().apply(xmain().ctx, mod)
            mod.verify()
            ks = [o for o in mod.walk() if o.name == "kernel.rescale"]
        except Exception as e:  # loud
            ctx.count({"L2": "tosa", "error": repr(e)[:100]}, False, None, "L2-tosa-error")
            continue
        ctx.count({"L2": "tosa", "params": p, "clamp": clamp, "out": outw, "rounding": rm}, True, None, "L2-tosa")
        want = dict(input_zp=p["zp_in"], output_zp=p["zp_out"], multiplier=[p["mult"]], shift=[p["shift"]],
                    min_int=clamp[0] if clamp else -h, max_int=clamp[1] if clamp else h - 1, double_round=(rm == "DOUBLE_ROUND"))
        if len(ks) != 1:
            fails.append({"what": "tosa-rescale-not-converted", "klass": None, "params": p, "clamp": clamp, "out": outw})
            continue
        k = ks[0]
        got = dict(input_zp=k.input_zp.value.data, output_zp=k.output_zp.value.data, multiplier=[int(v) for v in k.multiplier.get_values()],
                   shift=[int(v) for v in k.shift.get_values()], min_int=k.min_int.value.data, max_int=k.max_int.value.data,
                   double_round=bool(k.double_round.value.data))
        if got != want:
            fails.append({"what": "tosa-rescale-parameters", "klass": None, "tosa_params": p, "clamp": clamp, "out": outw, "rounding": rm,
                          "kernel_rescale": got, "expected": want})
    return fails


def search(ctx, deep=False):
    rng = ctx.rng
    fails = []
    fails += check_tosa(ctx, ctx.n(24, 200))
    rec = getattr(ctx, "c18_rec", None)
    if rec is None or deep:
        rec = run_recognition(gen_bodies(ctx))
    nin = ctx.n(12, 60) * (2 if deep else 1)
    # (1) recognised bodies and (2) expanded kernels: evaluate the real body against the kernel formula
    items, meta = [], []
    for b, before, after in rec:
        if after[0] == "error":
            fails.append({"what": "recognition-pass-failed", "klass": None, "body": b, "error": after[1], "program": after[2]})
            continue
        if after[0] == "kernel" and before[0] == "body":
            ins = scalars(rng, b[0], nin)
            items.append(f"({body_lit(before[1])}, {KNAMES[after[1]]}, {vlib.zlistlist(ins)})")
            meta.append({"what": "recognised-body-differs-from-kernel", "body": before[1], "kernel": after[1], "inputs": ins})
            ctx.count({"L2": "recognised", "body": b, "kernel": after[1]}, True, "l2" + json.dumps(b), "L2-recognised")
        else:
            ctx.count({"L2": "unrecognised", "body": b}, False, None, "L2-unrecognised")
    exp = getattr(ctx, "c18_exp", None) or list(zip(kernel_cfgs(ctx), run_expansion(kernel_cfgs(ctx))))
    for (k, tys), conv in exp:
        if conv[0] != "body":
            fails.append({"what": "kernel-not-expanded", "klass": None, "kernel": k, "tys": tys, **({"error": conv[1], "program": conv[2]} if conv[0] == "error" else {})})
            continue
        ins = scalars(rng, tys, nin)
        items.append(f"({body_lit(conv[1])}, {ktag(k)}, {vlib.zlistlist(ins)})")
        meta.append({"what": "expanded-body-differs-from-kernel", "body": conv[1], "kernel": "kernel." + k, "inputs": ins})
        ctx.count({"L2": "expanded", "kernel": k, "tys": tys}, True, f"l2e{k}{tys}", "L2-expanded")
    SH = 200
    texts = [HEADER + f"Definition cases : list (body * kernel * list (list Z)) := {coqlist(items[s:s + SH])}.\nEval vm_compute in failing ({L2_KTEST}) cases.\n"
             for s in range(0, len(items), SH)]
    # (2b) kernel ops with arbitrary wiring: the real expanded body against the kernel formula on the values the kernel
    # op read and the values the body yielded (eval_kbody), no model of the pass involved
    kbx = getattr(ctx, "c18_kbs", None)
    if kbx is None or deep:
        kbs = gen_kbodies(ctx)
        kbx = list(zip(kbs, run_kbodies(kbs)))
    kitems, kmeta = [], []
    for kb, conv in kbx:
        if conv[0] != "body":
            fails.append({"what": "kernel-not-expanded", "klass": None, "kbody": kb, **({"error": conv[1], "program": conv[2]} if conv[0] == "error" else {})})
            continue
        ins = scalars(rng, kb[0], max(4, nin // 2))
        kitems.append(f"({body_lit(conv[1])}, {kb_lit(kb)}, {vlib.zlistlist(ins)})")
        kmeta.append({"what": "expanded-wired-body-differs-from-kernel", "kbody": kb, "body": conv[1], "inputs": ins, "program": kb_text(kb, "f")})
        ctx.count({"L2": "expanded-wired", "kbody": kb}, True, "l2kb" + json.dumps(kb), "L2-expanded-wired")
    KSH = 300
    ktexts = [HEADER + f"Definition cases : list (body * kbody * list (list Z)) := {coqlist(kitems[s:s + KSH])}.\n"
              "Eval vm_compute in failing (fun c : body * kbody * list (list Z) => match c with (b, kb, ins) => "
              "forallb (fun a => list_eqb Z.eqb (eval_body b a) (eval_kbody kb a)) ins end) cases.\n"
              for s in range(0, len(kitems), KSH)]
    # (3) rescale vs golden model
    res = getattr(ctx, "c18_res", None)
    if res is None or deep:
        ps = gen_rparams(rng, ctx.n(40, 400))
        res = list(zip(ps, run_rescale(ps)))
    res32 = getattr(ctx, "c18_res32", None)
    if res32 is None or deep:
        ps32 = [W32["params"]] + gen_rparams(rng, ctx.n(8, 60))
        res32 = list(zip(ps32, run_rescale(ps32, 32)))
    ritems, rmeta = [], []
    for outw, (p, conv) in [(8, pc) for pc in res] + [(32, pc) for pc in res32]:
        if conv[0] != "body":
            fails.append({"what": "rescale-not-expanded", "klass": None, "params": p, **({"error": conv[1], "program": conv[2]} if conv[0] == "error" else {})})
            continue
        xs = [0, 1, -1, 2, 3, 127, -128, 255, 70000, -70000, (1 << 31) - 1, -(1 << 31), 12345, -54321] + [rng.randrange(-(1 << 20), 1 << 20) for _ in range(6)]
        for x in xs:
            try:
                g = golden(p, x)
            except Exception:
                g = None
            # every channel of the golden model is compared in Coq; the class (F18) is the Gallina predicate
            # rescale_safe_pc (per-channel parameters included) / rescale_safe_w (result width)
            gl = "None" if g is None else f"(Some {vlib.zlist(g)})"
            single = len(p["mults"]) == 1 and len(p["shifts"]) == 1
            ritems.append(f"({body_lit(conv[1])}, {rpc_lit(p)}, {zlit(x)}, {gl}, {zlit(outw)}, {'true' if single else 'false'})")
            rmeta.append({"what": "rescale-differs-from-golden", "params": p, "x": x, "golden": g, "outw": outw})
            ctx.count({"L2": "rescale", "params": p, "x": x, "outw": outw}, True, None, "L2-rescale" + ("" if outw == 8 else "-i32"))
    # codes: 0 ok; 1 real body != model formula; 2 some channel differs from the golden model although
    # rescale_safe_pc / rescale_safe_w hold for it (violation); 3 differs only on channels outside the safe class
    # (F18: double rounding, per-channel parameters, overflow, clamp outside the result type); 4 the model's
    # golden_rescale differs from the real numpy golden model (model defect); 6 ill-typed yield (violation:
    # F-C18-3 is repaired, the yielded value must have the result type)
    RT = ("fun c : body * rparams_pc * Z * option (list Z) * Z * bool => match c with (b, q, x, g, wout, single) => "
          "let p := chan q 0 in let r := eval_body b [x; 0%Z] in "
          "if negb (list_eqb Z.eqb r (eval_body (rescale_region_for wout p) [x; 0%Z])) then 1 else "
          "if single && (1 <=? shift p)%Z && (shift p <=? 64)%Z && negb (match g with Some (gv :: _) => (golden_rescale p x =? gv)%Z | _ => true end) then 4 else "
          "if negb (yield_typed b) then 6 else "
          "match g with Some gvs => "
          "let bad := filter (fun c => negb (list_eqb Z.eqb r [nth c gvs 0%Z])) (seq 0 (length gvs)) in "
          "match bad with [] => 0 | _ => if existsb (fun c => rescale_safe_pc q c x && rescale_safe_w wout (chan q c) x) bad then 2 else 3 end "
          "| None => if rescale_safe_w wout p x then 2 else 3 end end")
    RSH = 400
    rtexts = [HEADER + f"Definition cases : list (body * rparams_pc * Z * option (list Z) * Z * bool) := {coqlist(ritems[s:s + RSH])}.\nEval vm_compute in map ({RT}) cases.\n"
              for s in range(0, len(ritems), RSH)]
    lists = _eval_lists("c18l2_", texts + ktexts + rtexts)
    for si, bad in enumerate(lists[:len(texts)]):
        for idx in bad:
            fails.append({**meta[si * SH + idx], "klass": None})
    for si, bad in enumerate(lists[len(texts):len(texts) + len(ktexts)]):
        for idx in bad:
            fails.append({**kmeta[si * KSH + idx], "klass": None})
    codes = [c for l in lists[len(texts) + len(ktexts):] for c in l]
    assert len(codes) == len(ritems)
    for c, m in zip(codes, rmeta):
        if c == 1:
            fails.append({**m, "what": "rescale-body-differs-from-model-formula", "klass": None})
        elif c == 2:
            fails.append({**m, "klass": None})
        elif c == 3:
            fails.append({**m, "klass": "rescale_not_safe"})
        elif c == 4:
            fails.append({**m, "what": "model-golden_rescale-differs-from-numpy-golden-model", "klass": None})
        elif c == 6:
            fails.append({**m, "what": "rescale-body-yield-ill-typed", "klass": None})
    # (4) dispatch: a dispatched kernel is declared by the chosen accelerator (real Python objects)
    dsp = getattr(ctx, "c18_dsp", None)
    if dsp is None or deep:
        dsp = []
        for objs, tabs, k, tys in gen_dispatch_cases(ctx):
            lib, err = run_dispatch(objs, k, tys)
            dsp.append((objs, tabs, k, tys, lib, err))
    kc = kernel_classes()
    for objs, tabs, k, tys, lib, err in dsp:
        ctx.count({"L2": "dispatch", "kernel": k, "tys": tys, "lib": lib}, lib is not None, None, "L2-dispatch")
        if lib is None:
            continue
        base = lib[:-7] if lib.endswith("_stream") else lib
        acc = [a for a in objs if a.name == base]
        declared = acc and any(s.kernel_type is kc[k] and [int_width(t) for t in s.operand_types] == list(tys) for s in acc[0].supported_kernels)
        if not declared:
            fails.append({"what": "dispatched-to-accelerator-that-does-not-declare-it", "klass": None, "kernel": k, "tys": tys,
                          "library_call": lib, "tables": tabs})
    return _dedup(fails)


def _dedup(fails):
    seen, out = set(), []
    for f in fails:
        k = (f["what"], f["klass"])
        if k not in seen:
            seen.add(k)
            out.append(f)
    return out


def replay_known(ctx, entry):
    w = entry["witness"]
    p = w["params"]
    conv = run_rescale([p])[0]
    g = golden(p, w["x"])
    txt = HEADER + (f"Eval vm_compute in (negb (list_eqb Z.eqb (eval_body {body_lit(conv[1])} [{zlit(w['x'])}; 0%Z]) [{zlit(g[0])}]) "
                    f"&& negb (rescale_safe {rp_lit(p)} {zlit(w['x'])})).\n")
    ok, out = vlib.coq_eval("c18known", txt)
    return ok and "= true" in out


def replay(ctx, obj):
    f = obj.get("failure")
    if not f:
        print("no failing input recorded; broken obligations:", json.dumps(obj.get("no_longer_checks"), default=str)[:3000])
        return 1
    print(json.dumps({k: v for k, v in f.items() if k not in ("inputs", "program")}, default=str)[:2000])
    if f.get("error") and f.get("program"):
        from snaxc.transforms.convert_kernel_to_linalg import ConvertKernelToLinalg
        from snaxc.transforms.convert_linalg_to_kernel import ConvertLinalgToKernel
        print(f["program"])
        ps_ = ConvertLinalgToKernel if f["what"].startswith("recognition") else ConvertKernelToLinalg
        print("re-running the pass on this program now gives:", run_items([f["program"]], ps_)[0][1][:2])
        return 1
    if "body" in f and "kernel" in f and "inputs" in f:
        b = (f["body"][0], [(k, r, [tuple(s) for s in srcs]) for k, r, srcs in f["body"][1]], [tuple(s) for s in f["body"][2]])
        print(body_mlir(b, "replay") if all(o[0] in ARITH or o[0] == "ext" for o in b[1]) else b)
        kn = KNAMES[f["kernel"]]
        txt = HEADER + "".join(
            f"Eval vm_compute in (eval_body {body_lit(b)} {vlib.zlist(a)}, eval_kernel {kn} {vlib.zlist(b[0])} {vlib.zlist(a)}).\n"
            for a in f["inputs"][:8])
        ok, out = vlib.coq_eval("c18replay", txt)
        print("(value of the real body, value of the kernel formula) per input", f["inputs"][:8])
        print(out[-2500:])
        # re-run the real recognition on this body
        if all(o[0] in ARITH or o[0] == "ext" for o in b[1]):
            r = run_recognition([b])[0]
            print("convert-linalg-to-kernel on this body now gives:", r[2][:2])
        return 1
    if "kbody" in f:
        kb = f["kbody"]
        kb = (kb[0], kb[1], kb[2], kb[3], kb[4])
        print(kb_text(kb, "replay"))
        conv = run_kbodies([kb])[0]
        print("convert-kernel-to-linalg on this body now gives:", conv[1] if conv[0] == "body" else conv[:2])
        if conv[0] == "body":
            txt = HEADER + "".join(f"Eval vm_compute in (eval_body {body_lit(conv[1])} {vlib.zlist(a)}, eval_kbody {kb_lit(kb)} {vlib.zlist(a)}).\n" for a in f["inputs"][:8])
            ok, out = vlib.coq_eval("c18replay", txt)
            print("(value of the real expanded body, kernel formula on the values the kernel op read) per input", f["inputs"][:8])
            print(out[-2500:])
        return 1
    if "params" in f:
        p = f["params"]
        if f.get("outw", 8) != 8:
            conv = run_rescale([p], f["outw"])[0]
            print("kernel.rescale (i32) -> i%d expands to: %s" % (f["outw"], conv[1]))
            print("golden:", golden(p, f["x"]))
            ok, out = vlib.coq_eval("c18replay", HEADER + f"Eval vm_compute in (eval_body {body_lit(conv[1])} [{zlit(f['x'])}; 0%Z], yield_typed {body_lit(conv[1])}).\n")
            print(out[-800:])
            return 1
        conv = run_rescale([p])[0]
        print("golden:", golden(p, f["x"]))
        ok, out = vlib.coq_eval("c18replay", HEADER + f"Eval vm_compute in (eval_body {body_lit(conv[1])} [{zlit(f['x'])}; 0%Z], rescale_safe {rp_lit(p)} {zlit(f['x'])}).\n")
        print(out[-800:])
        return 1
    if "tables" in f:
        print("dispatch case; re-run:", f)
        return 1
    return 1
