"""C04 — instruction-configured (RoCC / gemmini) accelerators against coq/Model/C04Rocc.v.

L1: real `convert-accfg-to-csr` output on RoCC programs (read back as `.insn` lists with loop/if structure) ==
    `rlower_prog` (create_pairs over the model of infer_state_of, default-0 completion, declaration-order emission).
L2 (no lowering model): the instruction stream of the real output, executed on the Coq machine, must carry for
    every instruction the values currently in effect for both source fields (`rrun`: register file of the source
    run after each setup; a half that was never written matches anything).
"""
from __future__ import annotations

import re

import vlib
from vlib import coqlist, zlit

import accir
from props import c04_lower as B

PRELUDE = "From Snax Require Import Base.Prelude Model.AccIR Model.AccSem Model.AccInfer Model.C04Csr Model.C04Rocc.\n"
INSTRS = ["k_CFG_BOUNDS", "k_CFG_ADDRS_AB", "k_CFG_ADDRS_DC", "k_CFG_STRIDES"]
ST = '!accfg.state<"gemmini">'


def decl_text(rng, instrs):
    items = []
    f7 = 9
    for i in instrs:
        halves = [f"{i}.rs1 = {f7} : i64", f"{i}.rs2 = {f7} : i64"]
        if rng.random() < 0.3:
            halves.reverse()
        items += halves
        f7 += 1
    if rng.random() < 0.3:            # interleave the declaration order
        rng.shuffle(items)
    return ('  "accfg.accelerator"() <{name = @gemmini, fields = {' + ", ".join(items) +
            '}, launch_fields = {k_LOOP_WS.rs1 = 8 : i64, k_LOOP_WS.rs2 = 8 : i64}, barrier = 2989 : i32}> : () -> ()')


def gen_rocc(rng):
    """Un-threaded RoCC program: every setup writes both halves of 1-3 instructions with values that change only
    partly from one setup to the next, so that the real accfg-dedup leaves setups that touch only one half."""
    instrs = INSTRS[:rng.choice([2, 3, 4])]
    L = []
    k = [0]

    def fresh(p):
        k[0] += 1
        return f"%{p}{k[0]}"
    pool0 = ["%a", "%b", "%c", "%d"]

    def triple(ind, pool, prev):
        chosen = rng.sample(instrs, rng.choice([1, 2, len(instrs)]))
        vals = {}
        for i in instrs:
            if i not in chosen:
                continue
            for h in ("rs1", "rs2"):
                key = f"{i}.{h}"
                if key in prev and rng.random() < 0.55:
                    vals[key] = prev[key]                 # unchanged half -> removed by dedup
                else:
                    vals[key] = rng.choice(pool)
            if rng.random() < 0.04:                       # only one half given at all
                del vals[f"{i}.{rng.choice(['rs1', 'rs2'])}"]
        prev.update(vals)
        s, t = fresh("s"), fresh("t")
        out = [f'{ind}{s} = accfg.setup "gemmini" to (' + ", ".join(f'"{f}" = {v} : i64' for f, v in vals.items()) + f") : {ST}"]
        l1, l2 = rng.choice(pool), rng.choice(pool)
        out.append(f'{ind}{t} = "accfg.launch"({l1}, {l2}, {s}) <{{param_names = ["k_LOOP_WS.rs1", "k_LOOP_WS.rs2"], '
                   f'accelerator = "gemmini"}}> : (i64, i64, {ST}) -> !accfg.token<"gemmini">')
        out.append(f'{ind}"accfg.await"({t}) : (!accfg.token<"gemmini">) -> ()')
        return out
    prev = {}
    n = rng.choice([2, 3, 4])
    for j in range(n):
        r = rng.random()
        if r < 0.35:
            i, w = fresh("i"), fresh("w")
            L.append(f"  scf.for {i} = %lb to %ub step %st {{")
            L.append(f"    {w} = arith.index_cast {i} : index to i64")
            inner = dict(prev)
            for _ in range(rng.choice([1, 2])):
                L += triple("    ", pool0 + [w, w], inner)
            L.append("    scf.yield")
            L.append("  }")
            prev = {}
        elif r < 0.5:
            L.append("  scf.if %cnd {")
            L += triple("    ", pool0, dict(prev))
            L.append("    scf.yield")
            L.append("  }")
            prev = {}
        elif r < 0.6:
            L.append("  func.call @foo() : () -> ()")
            prev = {}
        else:
            L += triple("  ", pool0, prev)
    text = ("builtin.module {\n" + decl_text(rng, instrs) + "\n  func.func @f(%a : i64, %b : i64, %c : i64, %d : i64, "
            "%lb : index, %ub : index, %st : index, %cnd : i1) {\n" + "\n".join(L) +
            "\n    func.return\n  }\n  func.func private @foo() -> ()\n}\n")
    mod = accir.parse(text)
    accir.trace_states(mod)
    hoist = rng.random() < 0.5
    accir.dedup(mod, hoist=hoist)
    from xdsl.transforms.dead_code_elimination import dce
    dce(mod)
    mod.verify()
    return mod, ["val", "val", "val", "val", "lb", "ub", "step", "cond"], f"rocc:dedup{'+hoist' if hoist else ''}"


FIXED = [
    # only the rs2 half changes inside the loop (the rs1 write was deduplicated); B/C addresses move per tile
    ("rs2_only_in_loop", f'''builtin.module {{
  "accfg.accelerator"() <{{name = @gemmini, fields = {{k_B.rs1 = 9 : i64, k_B.rs2 = 9 : i64, k_AB.rs1 = 10 : i64, k_AB.rs2 = 10 : i64, k_DC.rs1 = 11 : i64, k_DC.rs2 = 11 : i64}},
     launch_fields = {{k_LOOP_WS.rs1 = 8 : i64, k_LOOP_WS.rs2 = 8 : i64}}, barrier = 2989 : i32}}> : () -> ()
  func.func @f(%a : i64, %b : i64, %c : i64, %z : i64, %lb : index, %ub : index, %st : index) {{
    %s0 = accfg.setup "gemmini" to ("k_B.rs1" = %z : i64, "k_B.rs2" = %z : i64, "k_AB.rs1" = %a : i64, "k_AB.rs2" = %b : i64, "k_DC.rs1" = %z : i64, "k_DC.rs2" = %c : i64) : {ST}
    %t0 = "accfg.launch"(%z, %z, %s0) <{{param_names = ["k_LOOP_WS.rs1", "k_LOOP_WS.rs2"], accelerator = "gemmini"}}> : (i64, i64, {ST}) -> !accfg.token<"gemmini">
    "accfg.await"(%t0) : (!accfg.token<"gemmini">) -> ()
    %r = scf.for %i = %lb to %ub step %st iter_args(%s1 = %s0) -> ({ST}) {{
      %w = arith.index_cast %i : index to i64
      %b2 = arith.addi %b, %w : i64
      %c2 = arith.addi %c, %w : i64
      %s2 = accfg.setup "gemmini" from %s1 to ("k_AB.rs2" = %b2 : i64, "k_DC.rs2" = %c2 : i64) : {ST}
      %t = "accfg.launch"(%z, %z, %s2) <{{param_names = ["k_LOOP_WS.rs1", "k_LOOP_WS.rs2"], accelerator = "gemmini"}}> : (i64, i64, {ST}) -> !accfg.token<"gemmini">
      "accfg.await"(%t) : (!accfg.token<"gemmini">) -> ()
      scf.yield %s2 : {ST}
    }}
    %s3 = accfg.setup "gemmini" from %r to ("k_B.rs1" = %a : i64, "k_AB.rs1" = %c : i64) : {ST}
    %t3 = "accfg.launch"(%a, %b, %s3) <{{param_names = ["k_LOOP_WS.rs2", "k_LOOP_WS.rs1"], accelerator = "gemmini"}}> : (i64, i64, {ST}) -> !accfg.token<"gemmini">
    "accfg.await"(%t3) : (!accfg.token<"gemmini">) -> ()
    func.return
  }}
}}''', ["val", "val", "val", "val", "lb", "ub", "step"]),
    # first setup gives only one half: default 0 is materialised
    ("first_setup_one_half", f'''builtin.module {{
  "accfg.accelerator"() <{{name = @gemmini, fields = {{k_B.rs1 = 9 : i64, k_B.rs2 = 9 : i64, k_AB.rs2 = 10 : i64, k_AB.rs1 = 10 : i64}},
     launch_fields = {{k_LOOP_WS.rs1 = 8 : i64, k_LOOP_WS.rs2 = 8 : i64}}, barrier = 2989 : i32}}> : () -> ()
  func.func @f(%a : i64, %b : i64) {{
    %s0 = accfg.setup "gemmini" to ("k_B.rs2" = %a : i64, "k_AB.rs1" = %b : i64) : {ST}
    %s1 = accfg.setup "gemmini" from %s0 to ("k_B.rs1" = %b : i64) : {ST}
    %t0 = "accfg.launch"(%a, %b, %s1) <{{param_names = ["k_LOOP_WS.rs1", "k_LOOP_WS.rs2"], accelerator = "gemmini"}}> : (i64, i64, {ST}) -> !accfg.token<"gemmini">
    "accfg.await"(%t0) : (!accfg.token<"gemmini">) -> ()
    func.return
  }}
}}''', ["val", "val"]),
]


# ------------------------------------------------------------------------------------------------ reading
def read_rocc_block(block, hn):
    """like c04_lower.read_block, plus `.insn r CUSTOM_3, 0x3, <func7> ,x0, $0, $1`"""
    from xdsl.dialects import llvm
    real = B.read_block

    def patched(block, hn):
        from xdsl.dialects import arith, scf
        from xdsl.traits import IsTerminator
        out, term = [], []
        for op in block.ops:
            if op.has_trait(IsTerminator):
                if isinstance(op, scf.YieldOp):
                    term = [hn.val(o) for o in op.operands]
                continue
            if isinstance(op, llvm.InlineAsmOp):
                m = re.fullmatch(r"\.insn r CUSTOM_3, 0x3, (\d+) ,x0, \$0, \$1", op.asm_string.data)
                if not m or len(op.operands) != 2 or op.results:
                    raise B.Unreadable(f"inline asm {op.asm_string.data!r}")
                out.append({"op": "insn", "f7": int(m.group(1)), "v1": B.read_cval(op.operands[0], hn),
                            "v2": B.read_cval(op.operands[1], hn)})
                continue
            if isinstance(op, scf.ForOp):
                blk = op.body.block
                body, ys = patched(blk, hn)
                out.append({"op": "for", "iv": hn.val(blk.args[0]), "lb": hn.val(op.lb), "ub": hn.val(op.ub),
                            "step": hn.val(op.step),
                            "iters": [[hn.val(a), hn.val(i)] for a, i in zip(blk.args[1:], op.iter_args)],
                            "results": [hn.val(r) for r in op.results], "body": body, "yields": ys})
                continue
            if isinstance(op, scf.IfOp):
                th, thy = patched(op.true_region.block, hn)
                el, ely = patched(op.false_region.block, hn) if op.false_region.blocks else ([], [])
                out.append({"op": "if", "cond": hn.val(op.cond), "results": [hn.val(r) for r in op.results],
                            "then": th, "then_y": thy, "else": el, "else_y": ely})
                continue
            if op.regions:
                raise B.Unreadable(f"op with regions: {op.name}")
            if op.results and not any(hn.known(r) for r in op.results):
                if isinstance(op, (arith.ConstantOp, arith.IndexCastOp)):
                    continue
                raise B.Unreadable(f"unexpected new op {op.name}")
            out.append(accir.convert_op(op, hn))
        return out, term
    return patched(block, hn)


def cv(v):
    return {"ref": f"(VRef {v[1]}%nat)", "cast": f"(VCast {v[1]}%nat)"}.get(v[0], f"(VConst {zlit(v[1])})")


def rstmt_to_coq(s):
    if s["op"] == "insn":
        return f"CInsn {zlit(s['f7'])} {cv(s['v1'])} {cv(s['v2'])}"
    if s["op"] == "for":
        nl = lambda xs: coqlist(f"{x}%nat" for x in xs)
        its = coqlist(f"({a}%nat, {i}%nat)" for a, i in s["iters"])
        return (f"CFor {s['iv']}%nat {s['lb']}%nat {s['ub']}%nat {s['step']}%nat {its} {nl(s['results'])} "
                f"{rblock_to_coq(s['body'])} {nl(s['yields'])}")
    if s["op"] == "if":
        nl = lambda xs: coqlist(f"{x}%nat" for x in xs)
        return (f"CIf {s['cond']}%nat {nl(s['results'])} {rblock_to_coq(s['then'])} {nl(s['then_y'])} "
                f"{rblock_to_coq(s['else'])} {nl(s['else_y'])}")
    return B.cstmt_to_coq(s)


def rblock_to_coq(b):
    return coqlist(rstmt_to_coq(s) for s in b)


def coq_rinfo(decl, names):
    inv = sorted(names.accs.items(), key=lambda kv: kv[1])
    out = []
    for nm, _ in inv:
        d = decl.get(nm)
        if d is None:
            raise B.Unreadable(f"accelerator {nm} not declared")
        instr_ids = {}

        def rd(items):
            res = []
            for k, f7 in items:
                if not (k.endswith(".rs1") or k.endswith(".rs2")):
                    raise B.Unreadable(f"RoCC field {k} is neither .rs1 nor .rs2")
                i = instr_ids.setdefault(k[:-4], len(instr_ids))
                res.append(f"(mkRF {names.field(k)}%nat {i}%nat {'true' if k.endswith('.rs1') else 'false'} {zlit(f7)})")
            return coqlist(res)
        out.append(f"(mkRInfo {rd(d['fields'])} {rd(d['launch'])})")
    return coqlist(out)


def rocc_case(mod, kinds):
    from snaxc.transforms.convert_accfg_to_csr import ConvertAccfgToCsrPass
    B.name_all_values(mod)
    names = accir.Names()
    before_text = accir.print_module(mod)
    progs = accir.convert_module(mod, names)
    decl = B.read_amap(mod, names)
    hn = B.HintNames(names)
    case = {"before_text": before_text, "prog": progs["f"], "decl": decl, "kinds": kinds, "names": names}
    try:
        ConvertAccfgToCsrPass().apply(accir.xctx(), mod)
    except Exception as e:
        case["error"] = f"{type(e).__name__}: {e}"[:300]
        return case
    try:
        case["survivors"] = B.surviving_state(mod)
        mod.verify()
        f = [op for op in mod.body.block.ops if op.name == "func.func" and op.body.blocks][0]
        case["after"], _ = read_rocc_block(f.body.block, hn)
        case["after_text"] = accir.print_module(mod)
    except B.Unreadable as e:
        case["unreadable"] = str(e)[:300]
    except Exception as e:
        case["broken_output"] = f"{type(e).__name__}: {e}"[:300]
    return case


_CACHE = {}


def _run(ctx):
    if "r" in _CACHE:
        return _CACHE["r"]
    rng = ctx.rng
    cases = []
    for nm, text, kinds in FIXED:
        c = rocc_case(accir.parse(text), kinds)
        c["origin"] = "rocc:" + nm
        cases.append(c)
    n = ctx.n(24, 600)
    tries = 0
    while len(cases) < n + len(FIXED) and tries < 4 * n:
        tries += 1
        try:
            mod, kinds, origin = gen_rocc(rng)
        except Exception as e:
            ctx.notes.append(f"rocc generator pipeline failed: {type(e).__name__}: {str(e)[:120]}")
            continue
        c = rocc_case(mod, kinds)
        c["origin"] = origin
        cases.append(c)
    texts, index = [], []
    chunk = 10
    usable = [i for i, c in enumerate(cases) if "after" in c or "error" in c]
    for off in range(0, len(usable), chunk):
        ids = usable[off:off + chunk]
        l1, l2 = [], []
        for i in ids:
            c = cases[i]
            try:
                rm = coq_rinfo(c["decl"], c["names"])
            except B.Unreadable as e:
                c["unreadable"] = str(e)
                continue
            p = accir.to_coq(c["prog"])
            if "after" in c:
                rb = rblock_to_coq(c["after"])
                l1.append((i, f"({rm}, {p}, Some {rb})"))
                ins = [B.gen_inputs(rng, c["kinds"], st) for st in ("zero", "one", "many", None)]
                c["inputs"] = ins
                for j, a in enumerate(ins):
                    l2.append(((i, j), f"({rm}, {p}, {rb}, {accir.zlist(a)}, {zlit(j + 1)})"))
            else:
                l1.append((i, f"({rm}, {p}, None)"))
        t = PRELUDE
        t += f"Definition l1 : list (list rinfo * prog * option cblock) := {coqlist(x for _, x in l1)}.\n"
        t += ("Eval vm_compute in failing (fun c : list rinfo * prog * option cblock => match c with (rm, p, rb) => "
              "ocblock_eqb (rlower_prog rm p) rb end) l1.\n")
        t += f"Definition l2 : list (list rinfo * prog * cblock * list Z * Z) := {coqlist(x for _, x in l2)}.\n"
        t += ("Eval vm_compute in failing (fun c : list rinfo * prog * cblock * list Z * Z => match c with (rm, p, rb, args, seed) => "
              "let co := test_coracle seed in "
              "rtrace_match (rrun rm (co_orc co) p args) (crun co (p_params p) rb args) end) l2.\n")
        texts.append(t)
        index.append(([i for i, _ in l1], [k for k, _ in l2]))
    l1_bad, l2_bad, broken = [], [], []
    for (i1, i2), (ok, out) in zip(index, vlib.coq_eval_many("c04r", texts, timeout=600, par=8)):
        lists = vlib.parse_all_eval_lists(out)
        if not ok or len(lists) != 2:
            broken.append(out[-1500:])
            continue
        l1_bad += [i1[k] for k in lists[0]]
        l2_bad += [i2[k] for k in lists[1]]
    _CACHE["r"] = (cases, l1_bad, l2_bad, broken)
    return _CACHE["r"]


def _partial_setups(c):
    """number of setups with an input state that touch only one half of some instruction"""
    n = 0

    def walk(b):
        nonlocal n
        for s in b:
            if s["op"] == "setup" and s["in"] is not None:
                n += 1
            for k in ("body", "then", "else"):
                if k in s:
                    walk(s[k])
    walk(c["prog"]["body"])
    return n


def correspondence_R(ctx):
    cases, l1_bad, _, broken = _run(ctx)
    dis = [{"name": "L1:rocc:cases-file", "detail": b} for b in broken]
    for c in cases:
        ctx.count({"L1": "rocc", "origin": c["origin"], "threaded_setups": _partial_setups(c), "error": c.get("error")},
                  _partial_setups(c) > 0 and "after" in c, "R" + c["before_text"],
                  "rocc:" + ("error" if "error" in c else "lowered"))
        if "unreadable" in c:
            dis.append(dict(name="L1:rocc:unreadable-output", **B._case_view(c)))
    for i in l1_bad:
        dis.append(dict(name="L1:rocc", **B._case_view(cases[i])))
    return dis


def partial_first_setup(c):
    """class rocc_partial_first_setup: some setup WITHOUT input state writes only one half of an instruction
    (the lowering materialises 0 for the other half, whatever the register currently holds)"""
    inv = {v: k for k, v in c["names"].fields.items()}
    found = False

    def walk(b):
        nonlocal found
        for s in b:
            if s["op"] == "setup" and s["in"] is None:
                names = {inv[f] for f, _ in s["fields"]}
                for n in names:
                    other = n[:-4] + (".rs2" if n.endswith(".rs1") else ".rs1")
                    if other not in names:
                        found = True
            for k in ("body", "then", "else"):
                if k in s:
                    walk(s[k])
    walk(c["prog"]["body"])
    return found


WITNESS = '''builtin.module {
  "accfg.accelerator"() <{name = @gemmini, fields = {k_AB.rs1 = 10 : i64, k_AB.rs2 = 10 : i64}, launch_fields = {k_LOOP_WS.rs1 = 8 : i64, k_LOOP_WS.rs2 = 8 : i64}, barrier = 2989 : i32}> : () -> ()
  func.func @f(%a : i64, %b : i64, %c : i64, %cnd : i1) {
    scf.if %cnd {
      %s1 = accfg.setup "gemmini" to ("k_AB.rs1" = %a : i64, "k_AB.rs2" = %b : i64) : !accfg.state<"gemmini">
      %t1 = "accfg.launch"(%a, %a, %s1) <{param_names = ["k_LOOP_WS.rs1", "k_LOOP_WS.rs2"], accelerator = "gemmini"}> : (i64, i64, !accfg.state<"gemmini">) -> !accfg.token<"gemmini">
      "accfg.await"(%t1) : (!accfg.token<"gemmini">) -> ()
      scf.yield
    }
    %s2 = accfg.setup "gemmini" to ("k_AB.rs2" = %c : i64) : !accfg.state<"gemmini">
    %t2 = "accfg.launch"(%a, %a, %s2) <{param_names = ["k_LOOP_WS.rs1", "k_LOOP_WS.rs2"], accelerator = "gemmini"}> : (i64, i64, !accfg.state<"gemmini">) -> !accfg.token<"gemmini">
    "accfg.await"(%t2) : (!accfg.token<"gemmini">) -> ()
    func.return
  }
}'''


def replay_known(ctx, entry):
    if entry.get("class") != "rocc_partial_first_setup":
        return False
    c = rocc_case(accir.parse(entry.get("witness", {}).get("mlir", WITNESS)), [])
    if "after" not in c or not partial_first_setup(c):
        return False
    rm = coq_rinfo(c["decl"], c["names"])
    p = accir.to_coq(c["prog"])
    rb = rblock_to_coq(c["after"])
    args = entry.get("witness", {}).get("args", [100, 200, 300, 1])
    t = PRELUDE + (f"Eval vm_compute in (rtrace_match (rrun {rm} (co_orc (test_coracle 1)) {p} {accir.zlist(args)}) "
                   f"(crun (test_coracle 1) (p_params {p}) {rb} {accir.zlist(args)})).\n")
    ok, out = vlib.coq_eval("c04rk", t)
    return ok and "= false" in out


def search_R(ctx, deep):
    cases, _, l2_bad, _ = _run(ctx)
    fails = []
    for c in cases:
        if c.get("survivors"):
            fails.append({"part": "R", "what": "state_survives", "kind": c["origin"], "detail": c["survivors"][:5], "klass": None,
                          "case": B._case_view(c)})
        elif c.get("broken_output"):
            fails.append({"part": "R", "what": "broken_output", "kind": c["origin"], "detail": c["broken_output"], "klass": None,
                          "case": B._case_view(c)})
    for (i, j) in l2_bad:
        c = cases[i]
        fails.append({"part": "R", "what": "rocc_instruction_stream_differs", "kind": c["origin"],
                      "klass": "rocc_partial_first_setup" if partial_first_setup(c) else None,
                      "detail": {"args": c["inputs"][j], "seed": j + 1}, "case": B._case_view(c)})
    for c in cases:
        ctx.count({"L2": "rocc", "origin": c["origin"]}, "after" in c, "L2R" + c["before_text"], "L2:rocc")
    return fails


def replay(ctx, f):
    case = f.get("case", {})
    text = case.get("before_text")
    print("--- RoCC program before convert-accfg-to-csr\n" + str(text))
    c = rocc_case(accir.parse(text), [])
    for k in ("error", "unreadable", "broken_output", "survivors"):
        if c.get(k):
            print(f"{k}: {c[k]}")
    bad = bool(c.get("survivors") or c.get("broken_output") or c.get("unreadable"))
    if "after" in c:
        print("--- after\n" + c["after_text"])
        rm = coq_rinfo(c["decl"], c["names"])
        p = accir.to_coq(c["prog"])
        rb = rblock_to_coq(c["after"])
        args = (f.get("detail") or {}).get("args") or []
        seed = (f.get("detail") or {}).get("seed", 1)
        t = PRELUDE + (f"Definition rm := {rm}.\nDefinition p := {p}.\nDefinition rb : cblock := {rb}.\n"
                       f"Definition co := test_coracle {zlit(seed)}.\n"
                       f"Eval vm_compute in (rrun rm (co_orc co) p {accir.zlist(args)}).\n"
                       f"Eval vm_compute in (crun co (p_params p) rb {accir.zlist(args)}).\n"
                       f"Eval vm_compute in (rtrace_match (rrun rm (co_orc co) p {accir.zlist(args)}) (crun co (p_params p) rb {accir.zlist(args)})).\n"
                       f"Eval vm_compute in (ocblock_eqb (rlower_prog rm p) (Some rb)).\n")
        ok, out = vlib.coq_eval("c04rreplay", t)
        print("--- instructions the source demands / issued by the real output / match / model == real output:\n" + out[-3500:])
        bad = bad or ("= false" in out) or not ok
    return 1 if bad else 0
