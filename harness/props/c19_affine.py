"""C19 (a) canonicalize_affine.py.
generate : coq/Gen/CanonAffine.v from $SNAX_REPO/snaxc/util/canonicalize_affine.py (translator/py2coq.py)
L1       : (i) hand model Model/XdslAffine.v vs the installed xDSL (smart constructors, eval)
           (ii) generated model vs the real get_dim / canonicalize_expr / canonicalize_map (tree equality)
L2       : real canonicalize_expr / canonicalize_map: value preserved on boxes + random points, idempotent.
"""
from __future__ import annotations

import itertools

import vlib
from vlib import coqlist, zlit

PART = "affine"
FUEL = 400
KNOWN_ASSERT = None   # F22 (canon_sum_folds_to_leaf) is repaired in /repo: an AssertionError is a new failure


def generate(ctx):
    import py2coq
    spec = py2coq.load_spec(vlib.VERIF / "translator" / "specs" / "canonicalize_affine.py")
    text = py2coq.translate(ctx.repo, spec.SPEC)
    vlib.write_if_changed(vlib.COQ / "Gen" / spec.OUT, text)
    ctx.extra.setdefault("translator", {})["Gen/" + spec.OUT] = {
        "source": spec.SPEC.source, "source_sha1": vlib.repo_file_hash(spec.SPEC.source)}


def _x():
    from xdsl.ir import affine
    return affine


# ------------------------------------------------------------------ expression generator
KINDS = ["Add", "Add", "Add", "Mul", "Mul", "FloorDiv", "Mod"]
CONSTS = [0, 1, 1, -1, 2, 2, 3, 4, 5, 8, -2, -3, 16]


def gen_expr(rng, depth, raw=True, ndims=3, nsyms=1, allow_ceil=False):
    """nested tuple: ("d",i) ("s",i) ("c",v) (kind,l,r).  raw: arbitrary trees (what AffineBinaryOpExpr(...)
    can hold); otherwise affine-shaped (constant on one side of * and on the rhs of // and %)."""
    if depth <= 0 or rng.random() < 0.25:
        r = rng.random()
        if r < 0.5:
            return ("d", rng.randrange(ndims))
        if r < 0.6 and nsyms:
            return ("s", rng.randrange(nsyms))
        return ("c", rng.choice(CONSTS))
    k = rng.choice(KINDS + (["CeilDiv"] if allow_ceil else []))
    l = gen_expr(rng, depth - 1, raw, ndims, nsyms, allow_ceil)
    if raw and rng.random() < 0.3:
        r = gen_expr(rng, depth - 1, raw, ndims, nsyms, allow_ceil)
    elif k == "Add":
        r = gen_expr(rng, depth - 1, raw, ndims, nsyms, allow_ceil)
    else:
        r = ("c", rng.choice([1, 1, 2, 3, 4, 8, -1, 0] if k == "Mul" else [1, 1, 2, 3, 4, 8]))
    if k in ("Add", "Mul") and rng.random() < 0.4:
        l, r = r, l
    return (k, l, r)


def to_xdsl(t):
    a = _x()
    if t[0] == "d":
        return a.AffineDimExpr(t[1])
    if t[0] == "s":
        return a.AffineSymExpr(t[1])
    if t[0] == "c":
        return a.AffineConstantExpr(t[1])
    return a.AffineBinaryOpExpr(getattr(a.AffineBinaryOpKind, t[0]), to_xdsl(t[1]), to_xdsl(t[2]))


def from_xdsl(e):
    a = _x()
    if isinstance(e, a.AffineDimExpr):
        return ("d", e.position)
    if isinstance(e, a.AffineSymExpr):
        return ("s", e.position)
    if isinstance(e, a.AffineConstantExpr):
        return ("c", e.value)
    return (e.kind.name, from_xdsl(e.lhs), from_xdsl(e.rhs))


def coq_expr(t):
    if t[0] == "d":
        return f"(EDim {zlit(t[1])})"
    if t[0] == "s":
        return f"(ESym {zlit(t[1])})"
    if t[0] == "c":
        return f"(ECst {zlit(t[1])})"
    return f"(EBin K{t[0]} {coq_expr(t[1])} {coq_expr(t[2])})"


def coq_opt(t):
    return "None" if t is None else f"(Some {coq_expr(t)})"


def size(t):
    return 1 if t[0] in "dsc" else 1 + size(t[1]) + size(t[2])


def try_op(f):
    try:
        return from_xdsl(f())
    except (NotImplementedError, ZeroDivisionError):
        return None


def safe_eval(e, dims, syms):
    try:
        return e.eval(dims, syms)
    except ZeroDivisionError:
        return None


# ------------------------------------------------------------------ L1
def l1_prepare(ctx):
    rng = ctx.rng
    a = _x()
    from snaxc.util import canonicalize_affine as ca
    n = ctx.n(250, 3000)
    # (i) hand model of xDSL
    ops, evals = [], []
    ops_meta, evals_meta = [], []
    for _ in range(n):
        ta, tb = gen_expr(rng, rng.choice([0, 1, 2, 3])), gen_expr(rng, rng.choice([0, 0, 1, 2]))
        xa, xb = to_xdsl(ta), to_xdsl(tb)
        res = [try_op(lambda: xa + xb), try_op(lambda: xa * xb), try_op(lambda: xa - xb), try_op(lambda: -xa),
               try_op(lambda: xa // xb), try_op(lambda: xa % xb), try_op(lambda: xa.ceil_div(xb))]
        ops.append(f"({coq_expr(ta)}, {coq_expr(tb)}, {coqlist(coq_opt(r) for r in res)})")
        ops_meta.append((ta, tb))
        ctx.count({"part": PART, "xdsl_ops": [str(xa), str(xb)]}, size(ta) + size(tb) > 3, f"ops{ta}{tb}", "xdsl_smart_ctor")
        te = gen_expr(rng, rng.choice([1, 2, 3, 4]), allow_ceil=True)
        xe = to_xdsl(te)
        dims = [rng.randrange(-20, 40) for _ in range(3)]
        syms = [rng.randrange(-5, 9)]
        v = safe_eval(xe, dims, syms)
        if v is not None:
            evals.append(f"({coq_expr(te)}, {vlib.zlist(dims)}, {vlib.zlist(syms)}, {zlit(v)})")
            evals_meta.append((te, dims, syms))
            ctx.count({"part": PART, "xdsl_eval": str(xe)}, size(te) > 3, f"ev{te}{dims}{syms}", "xdsl_eval")
    t_x = ["From Snax Require Import Base.Prelude Model.XdslAffine.",
           "Definition env (l : list Z) (p : Z) : Z := nth (Z.to_nat p) l 0.",
           f"Definition cases_ops := {coqlist(ops)}.",
           "Eval vm_compute in failing (fun c : aexpr * aexpr * list (option aexpr) => match c with (a, b, r) => "
           "list_eqb opt_aexpr_eqb [Some (xadd a b); xmul a b; Some (xsub a b); Some (xneg a); xfloordiv a b; xmod a b; xceildiv a b] r end) cases_ops.",
           f"Definition cases_eval := {coqlist(evals)}.",
           "Eval vm_compute in failing (fun c : aexpr * list Z * list Z * Z => match c with (e, d, s, v) => "
           "eval (env d) (env s) e =? v end) cases_eval."]
    # (ii) generated model of canonicalize_affine.py
    canon, dimc, mapc = [], [], []
    canon_meta, dim_meta, map_meta = [], [], []
    corpus = [("Add", ("Add", ("d", 0), ("c", 2)), ("c", -2))]
    for i in range(n):
        te = corpus[i] if i < len(corpus) else gen_expr(rng, rng.choice([1, 2, 3, 3, 4, 4]), raw=(i % 3 != 0))
        xe = to_xdsl(te)
        try:
            r = from_xdsl(ca.canonicalize_expr(xe))
        except (AssertionError, AttributeError, NotImplementedError, RecursionError) as ex:
            r = None
        canon.append(f"({coq_expr(te)}, {coq_opt(r)})")
        canon_meta.append(te)
        ctx.count({"part": PART, "canonicalize_expr": str(xe), "result": None if r is None else str(to_xdsl(r))},
                  r is not None and r != te, f"canon{te}", "canonicalize_expr")
        d = ca.get_dim(xe)
        dimc.append(f"({coq_expr(te)}, {vlib.optz(d)})")
        dim_meta.append(te)
        if i % 4 == 0:
            ts = [te] + [gen_expr(rng, rng.choice([1, 2, 3]), raw=False) for _ in range(rng.choice([0, 1, 2]))]
            m = a.AffineMap(3, 1, tuple(to_xdsl(t) for t in ts))
            try:
                rm = ca.canonicalize_map(m)
                out = f"(Some (AMap {zlit(rm.num_dims)} {zlit(rm.num_symbols)} {coqlist(coq_expr(from_xdsl(x)) for x in rm.results)}))"
            except (AssertionError, AttributeError, NotImplementedError, RecursionError):
                out = "None"
            mapc.append(f"(AMap 3%Z 1%Z {coqlist(coq_expr(t) for t in ts)}, {out})")
            map_meta.append(ts)
            ctx.count({"part": PART, "canonicalize_map": str(m)}, True, f"cmap{ts}", "canonicalize_map")
    t_c = ["From Snax Require Import Base.Prelude Model.PyLib Model.XdslAffine Gen.CanonAffine.",
           "Definition opt_amap_eqb (a b : option amap) := match a, b with Some x, Some y => amap_eqb x y | None, None => true | _, _ => false end.",
           f"Definition cases_canon := {coqlist(canon)}.",
           f"Eval vm_compute in failing (fun c : aexpr * option aexpr => opt_aexpr_eqb (canonicalize_expr {FUEL}%nat (fst c)) (snd c)) cases_canon.",
           f"Definition cases_dim := {coqlist(dimc)}.",
           f"Eval vm_compute in failing (fun c : aexpr * option Z => match get_dim {FUEL}%nat (fst c) with Some d => optZ_eqb d (snd c) | None => false end) cases_dim.",
           f"Definition cases_map := {coqlist(mapc)}.",
           f"Eval vm_compute in failing (fun c : amap * option amap => opt_amap_eqb (canonicalize_map {FUEL}%nat (fst c)) (snd c)) cases_map."]
    def finish(results):
        return _l1_finish(results, ops_meta, evals_meta, canon_meta, canon, dim_meta, map_meta)

    return ["\n".join(t_x) + "\n", "\n".join(t_c) + "\n"], finish


def _l1_finish(results, ops_meta, evals_meta, canon_meta, canon, dim_meta, map_meta):
    (ok1, out1), (ok2, out2) = results
    dis = []
    l1_ = vlib.parse_all_eval_lists(out1)
    if not ok1 or len(l1_) != 2:
        dis.append({"name": "L1:xdsl-cases-file", "detail": out1[-1500:]})
    else:
        for i in l1_[0]:
            dis.append({"name": "L1:xdsl-smart-ctor", "case": [str(to_xdsl(t)) for t in ops_meta[i]], "trees": ops_meta[i]})
        for i in l1_[1]:
            dis.append({"name": "L1:xdsl-eval", "case": str(to_xdsl(evals_meta[i][0])), "point": evals_meta[i][1:]})
    l2_ = vlib.parse_all_eval_lists(out2)
    if not ok2 or len(l2_) != 3:
        dis.append({"name": "L1:canon-cases-file", "detail": out2[-1500:]})
    else:
        for i in l2_[0]:
            dis.append({"name": "L1:canonicalize_expr", "case": str(to_xdsl(canon_meta[i])), "tree": canon_meta[i], "impl": canon[i][-300:]})
        for i in l2_[1]:
            dis.append({"name": "L1:get_dim", "case": str(to_xdsl(dim_meta[i])), "tree": dim_meta[i]})
        for i in l2_[2]:
            dis.append({"name": "L1:canonicalize_map", "case": [str(to_xdsl(t)) for t in map_meta[i]]})
    return dis


# ------------------------------------------------------------------ L2
BOX = list(itertools.product(range(-2, 4), repeat=3))


def points(rng, extra=6):
    pts = [(list(p), [s]) for p in BOX for s in (0, 3)]
    for _ in range(extra):
        pts.append(([rng.randrange(-1000, 1000) for _ in range(3)], [rng.randrange(-50, 50)]))
    return pts


def check_expr(te, pts):
    """the property on the real canonicalize_expr for one expression tree"""
    from snaxc.util import canonicalize_affine as ca
    xe = to_xdsl(te)
    try:
        r = ca.canonicalize_expr(xe)
    except AssertionError as ex:
        return [{"what": "canonicalize_expr raises AssertionError", "detail": repr(ex), "klass": KNOWN_ASSERT}]
    except Exception as ex:
        return [{"what": "canonicalize_expr raises", "detail": repr(ex)[:200], "klass": None}]
    out = []
    for (d, s) in pts:
        v0 = safe_eval(xe, d, s)
        if v0 is None:
            continue
        try:
            v1 = r.eval(d, s)
        except ZeroDivisionError:
            v1 = "ZeroDivisionError"
        if v0 != v1:
            out.append({"what": "canonicalize_expr changes the value", "klass": None,
                        "detail": {"expr": str(xe), "canonical": str(r), "dims": d, "syms": s, "before": v0, "after": v1}})
            break
    try:
        r2 = ca.canonicalize_expr(r)
        if r2 != r:
            out.append({"what": "canonicalize_expr not idempotent", "klass": None,
                        "detail": {"expr": str(xe), "once": str(r), "twice": str(r2)}})
    except AssertionError as ex:
        out.append({"what": "canonicalize_expr raises AssertionError", "detail": "on its own output " + str(r), "klass": KNOWN_ASSERT})
    except Exception as ex:      # e.g. RecursionError: a failure with this input, not a crash of the search
        out.append({"what": "canonicalize_expr raises", "detail": "on its own output " + str(r) + ": " + repr(ex)[:200], "klass": None})
    return out


def l2(ctx, deep):
    rng = ctx.rng
    n = ctx.n(400, 6000) * (4 if deep else 1)
    pts = points(rng)
    fails = []
    for i in range(n):
        te = gen_expr(rng, rng.choice([1, 2, 3, 3, 4, 4]), raw=(i % 2 == 0))
        ctx.count({"part": PART, "L2": str(to_xdsl(te))}, size(te) > 3, f"l2aff{te}", "L2:canonicalize_expr")
        for f in check_expr(te, pts if i % 4 == 0 else pts[::7]):
            fails.append({"part": PART, "what": f["what"], "input": {"expr": te}, "detail": f["detail"], "klass": f["klass"]})
        if len([f for f in fails if f["klass"] is None]) > 10:
            break
    # canonicalize_map: pointwise
    from snaxc.util import canonicalize_affine as ca
    a = _x()
    for i in range(n // 8):
        ts = [gen_expr(rng, rng.choice([1, 2, 3]), raw=False) for _ in range(rng.choice([1, 2, 3]))]
        m = a.AffineMap(3, 1, tuple(to_xdsl(t) for t in ts))
        ctx.count({"part": PART, "L2map": str(m)}, True, f"l2map{ts}", "L2:canonicalize_map")
        try:
            rm = ca.canonicalize_map(m)
        except Exception as ex:   # any exception of the implementation (AssertionError, RecursionError, ...) on a generated map
            fails.append({"part": PART, "what": "canonicalize_map raises", "input": {"map": ts},
                          "detail": {"map": str(m), "exception": repr(ex)[:200]},
                          "klass": KNOWN_ASSERT if isinstance(ex, AssertionError) else None})
            continue
        if (rm.num_dims, rm.num_symbols, len(rm.results)) != (3, 1, len(ts)):
            fails.append({"part": PART, "what": "canonicalize_map changes the signature", "input": {"map": ts}, "detail": str(rm), "klass": None})
            continue
        for (d, s) in pts[::11]:
            try:
                v0 = m.eval(d, s)
            except ZeroDivisionError:
                continue
            if tuple(rm.eval(d, s)) != tuple(v0):
                fails.append({"part": PART, "what": "canonicalize_map changes the value", "input": {"map": ts},
                              "detail": {"map": str(m), "canonical": str(rm), "dims": d, "syms": s}, "klass": None})
                break
    return fails


def replay_known(ctx, entry):
    te = _tuplify(entry["witness"]["expr"])
    return any(f["klass"] == entry["class"] for f in check_expr(te, []))


def _tuplify(x):
    return tuple(_tuplify(y) for y in x) if isinstance(x, list) else x


def replay(ctx, f):
    import random
    if "expr" in f["input"]:
        te = _tuplify(f["input"]["expr"])
        print("expression:", to_xdsl(te))
        res = check_expr(te, points(random.Random(0), 50))
    else:
        # canonicalize_map on the recorded result expressions: re-run on the implementation
        from snaxc.util import canonicalize_affine as ca
        ts = [_tuplify(t) for t in f["input"]["map"]]
        m = _x().AffineMap(3, 1, tuple(to_xdsl(t) for t in ts))
        print("map:", m)
        res = []
        try:
            rm = ca.canonicalize_map(m)
            if (rm.num_dims, rm.num_symbols, len(rm.results)) != (3, 1, len(ts)):
                res.append({"what": "canonicalize_map changes the signature", "detail": str(rm)})
            for (d, s) in points(random.Random(0), 50):
                try:
                    v0 = m.eval(d, s)
                except ZeroDivisionError:
                    continue
                if tuple(rm.eval(d, s)) != tuple(v0):
                    res.append({"what": "canonicalize_map changes the value", "detail": {"canonical": str(rm), "dims": d, "syms": s}})
                    break
        except Exception as ex:
            res.append({"what": "canonicalize_map raises", "detail": repr(ex)[:200]})
    for r in res:
        print("FAIL", r)
    return res
