"""C13 — cross-core dependencies are separated by a cluster barrier.

(H) hand model coq/Model/C13SyncBarrier.v of snaxc/transforms/insert_sync_barrier.py.
L1: the ops before which the real `insert-sync-barrier` puts a snax.cluster_sync_op must be exactly the
    ones the model's walk computes, on generated functions (copies, generics, streaming regions on
    shared allocs and views, loops to depth 3, scf.if, pre-existing barriers, deallocs).
L2: race detector on the real output: the IR after the real pass is converted to a tree program with
    read/write footprints (views resolved to their allocation), executed by the Coq semantics for
    sampled trip counts / branch outcomes, cut into phases at the barriers; two ops of different
    cores that conflict inside a phase are a failure, classified by the Coq predicate classify_pair
    (alias_via_view / cross_level / ctl_between / none).  Also: no barrier ends up under a
    core-specific guard after dispatch-regions (every core executes the same barriers).
"""
from __future__ import annotations

import re

import vlib
from vlib import boollit, coqlist, zlit
from props import mc_ir

PROPERTY = "C13"
MODEL_TARGETS = ["Model/C13SyncBarrier.vo"]
RULE = ("functions over 4 allocs + 2 arguments: memref.copy, linalg.generic, snax_alu / xDMA streaming regions reading and "
        "writing them, memref.dealloc, pre-existing cluster_sync_op, constants; straight-line and inside scf.for (depth <= 3) "
        "and scf.if, chains producer / unrelated op of the consumer's core / consumer; an adversarial stream adds whole-buffer subviews (aliases), producers and consumers at different "
        "loop levels and barriers inside branches. Non-trivial = at least one cross-core shared value; distinct = "
        "distinct program texts")
TRUSTED_BASE = [
    "Coq 8.16.1 kernel + vm_compute (no native_compute)",
    "hand model coq/Model/C13SyncBarrier.v of InsertSyncBarrier.apply, tied by L1",
    "harness/props/c13.py: converter xDSL IR -> pre-order op list with SSA value ids / tree with footprints (views resolved "
    "to allocations: subview, cast, reinterpret_cast), generators; mc_ir.py; xdsl_compat shim; xDSL 0.70 (uses lists, walk order)",
]
ASSUMPTIONS = [
    "the cluster barrier synchronises all cores (hardware semantics); DM ops run on the DM core, compute ops on the compute core (C14)",
    "ops executed by all cores (allocs, views, constants) touch no shared buffer contents",
    "the path statement is proved positionally (a barrier of the same block between the two ops / between the op and the end of the loop body); the race detector checks the semantic reading on the real output",
]

SH = 25


class Unsupported(Exception):
    pass


# ------------------------------------------------------------------ generator
class Gen:
    def __init__(self, rng, adversarial):
        self.rng = rng
        self.uid = 0
        self.adv = adversarial
        self.bufs = ["%b0", "%b1", "%b2", "%b3"]
        self.views = {}  # view name -> base
        self.nshared = 0

    def fresh(self):
        self.uid += 1
        return self.uid

    def buf(self, allow_view=True):
        r = self.rng
        names = self.bufs + ["%a0", "%a1"]
        if allow_view and self.views and r.random() < 0.5:
            return r.choice(list(self.views))
        return r.choice(names)

    def item(self, depth):
        r = self.rng
        kinds = ["copy", "copy", "copy", "generic", "generic", "generic", "sr_alu", "sr_dm", "sr_x64", "copy64", "const", "sync", "for", "for", "if", "chain"]
        k = r.choice(kinds)
        if depth >= 3 and k in ("for", "if"):
            k = r.choice(["copy", "generic"])
        u = self.fresh()
        if k == "copy":
            return [mc_ir.t_copy(self.buf(False), self.buf(False))]
        if k == "chain":
            # producer on one core, an unrelated op of the consumer's core, then the consumer: the barrier the pass
            # puts in front of the consumer sits between two ops of ONE core (a dispatcher that merges them into one
            # guard would move the consumer in front of the barrier)
            shared, other1, other2 = r.sample(self.bufs, 3)
            if r.random() < 0.5:
                return (mc_ir.t_generic([self.buf(False)], [shared], u).split("\n")
                        + [mc_ir.t_copy(other1, other2), mc_ir.t_copy(shared, r.choice(["%a0", "%a1"]))])
            return ([mc_ir.t_copy(r.choice(["%a0", "%a1"]), shared)]
                    + mc_ir.t_generic([other1], [other2], u).split("\n")
                    + mc_ir.t_generic([shared], [other2], self.fresh()).split("\n"))
        if k == "generic":
            return mc_ir.t_generic([self.buf()], [self.buf(False)], u).split("\n")
        if k == "sr_alu":
            return mc_ir.t_stream("snax_alu", "add", self.buf(False), self.buf(False), self.buf(False), u).split("\n")
        if k == "sr_dm":
            return mc_ir.t_stream("snax_xdma", "add", self.buf(False), self.buf(False), self.buf(False), u).split("\n")
        if k == "sr_x64":
            a, b, c = (r.choice(["%e0", "%e1"]) for _ in range(3))
            return mc_ir.t_stream("snax_xdma", "add", a, b, c, u, el="i64").split("\n")
        if k == "copy64":
            return [mc_ir.t_copy(r.choice(["%e0", "%e1"]), r.choice(["%e0", "%e1"]), ty="memref<64xi64>")]
        if k == "const":
            return [f"%k{u} = arith.constant {r.randrange(100)} : index"]
        if k == "sync":
            return ['"snax.cluster_sync_op"() : () -> ()']
        if k == "for":
            body = self.block(depth + 1)
            return [f"scf.for %i{u} = %c0 to %n step %c1 {{"] + ["  " + x for x in body] + ["}"]
        body = self.block(depth + 1)
        if r.random() < 0.5:
            return ["scf.if %cond {"] + ["  " + x for x in body] + ["}"]
        body2 = self.block(depth + 1)
        return ["scf.if %cond {"] + ["  " + x for x in body] + ["} else {"] + ["  " + x for x in body2] + ["}"]

    def block(self, depth):
        n = self.rng.choice([1, 2, 2, 3, 3, 4, 5])
        out = []
        for _ in range(n):
            out += self.item(depth)
        return out

    def func(self):
        r = self.rng
        L = ["func.func @f(%a0 : memref<64xi32>, %a1 : memref<64xi32>, %n : index, %cond : i1) {",
             "  %c0 = arith.constant 0 : index", "  %c1 = arith.constant 1 : index"]
        for b in self.bufs:
            L.append(f"  {b} = memref.alloc() : memref<64xi32>")
        L.append("  %e0 = memref.alloc() : memref<64xi64>")
        L.append("  %e1 = memref.alloc() : memref<64xi64>")
        if self.adv:
            for i in range(r.choice([1, 2])):
                base = r.choice(self.bufs)
                v = f"%v{i}"
                L.append(f"  {v} = memref.subview {base}[0][64][1] : memref<64xi32> to memref<64xi32, strided<[1]>>")
                self.views[v] = base
        L += ["  " + x for x in self.block(1)]
        for b in self.bufs:
            if r.random() < 0.4:
                L.append(f'  "memref.dealloc"({b}) : (memref<64xi32>) -> ()')
        L += ["  func.return", "}"]
        text = "\n".join(L)
        # views have a strided type: fix the operand types of generics that read a view
        return text


def fix_view_types(text):
    """linalg.generic ins(%vK : memref<64xi32>) must name the view's strided type"""
    def repl(m):
        names = [x.strip() for x in m.group(1).split(",")]
        tys = ["memref<64xi32, strided<[1]>>" if nm.startswith("%v") else "memref<64xi32>" for nm in names]
        return f"ins({', '.join(names)} : {', '.join(tys)})"
    return re.sub(r"ins\(([^:()]*) : [^)]*\)", repl, text)


def gen_case(rng, adversarial=False):
    g = Gen(rng, adversarial)
    return fix_view_types(g.func())


# ------------------------------------------------------------------ converter
def find_func(mod):
    for op in mod.walk():
        if op.name == "func.func" and op.sym_name.data == "f":
            return op
    raise Unsupported("no function")


def kind_of(op):
    if op.name == "snax.cluster_sync_op":
        return "BSync"
    if op.name == "memref.dealloc":
        return "BDealloc"
    k = mc_ir.rule_kind(op)
    if k == "BOTH":
        raise Unsupported("op is both DM and compute")
    return {"KDM": "BDM", "KCompute": "BCompute", "KOther": "BOther"}[k]


class Conv:
    def __init__(self):
        self.op_ids = {}
        self.val_ids = {}
        self.keep = []

    def oid(self, op):
        k = id(op)
        if k not in self.op_ids:
            self.op_ids[k] = len(self.op_ids) + 1
            self.keep.append(op)
        return self.op_ids[k]

    def vid(self, v):
        k = id(v)
        if k not in self.val_ids:
            self.val_ids[k] = len(self.val_ids) + 1
            self.keep.append(v)
        return self.val_ids[k]

    def flat(self, fop):
        """pre-order list of opinfo tuples of the function body (the func op itself is the root parent)"""
        out = []
        root = self.oid(fop)
        for op in fop.walk():
            if op is fop:
                continue
            par = op.parent_op()
            pfor = par is not None and par.name == "scf.for"
            pyield = self.oid(par.body.block.last_op) if pfor else 0
            out.append((self.oid(op), kind_of(op), [self.vid(v) for v in op.operands], [self.vid(v) for v in op.results],
                        self.oid(par), pfor, pyield))
        return out


def coq_info(t):
    return (f"mkInfo {zlit(t[0])} {t[1]} {vlib.zlist(t[2])} {vlib.zlist(t[3])} {zlit(t[4])} {boollit(t[5])} {zlit(t[6])}")


def coq_flat(fl):
    return coqlist(coq_info(t) for t in fl)


VIEW_OPS = ("memref.subview", "memref.cast", "memref.reinterpret_cast", "memref.memory_space_cast", "memref.collapse_shape", "memref.expand_shape")


def root_of(v, conv):
    from xdsl.ir import OpResult
    while isinstance(v, OpResult) and v.op.name in VIEW_OPS:
        v = v.op.operands[0]
    return conv.vid(v)


def is_memref(v):
    return "memref" in str(v.type)[:8]


def tree(block, conv):
    """tree program with footprints (roots of memref operands)"""
    out = []
    for op in block.ops:
        n = op.name
        if n == "scf.for":
            out.append(("RFor", conv.oid(op), tree(op.body.block, conv)))
        elif n == "scf.if":
            th = tree(op.true_region.block, conv)
            el = tree(op.false_region.block, conv) if op.false_region.blocks else []
            out.append(("RIf", conv.oid(op), th, el))
        elif n == "snax.cluster_sync_op":
            out.append(("RLeaf", conv.oid(op), -1, True, [], []))
        elif n == "memref.copy":
            out.append(("RLeaf", conv.oid(op), 1, False, [root_of(op.source, conv)], [root_of(op.destination, conv)]))
        elif n == "linalg.generic":
            out.append(("RLeaf", conv.oid(op), 0, False, [root_of(v, conv) for v in op.inputs if is_memref(v)],
                        [root_of(v, conv) for v in op.outputs if is_memref(v)]))
        elif n == "dart.operation":
            core = 1 if mc_ir.spec_kind(op) == "KDM" else 0
            out.append(("RLeaf", conv.oid(op), core, False, [root_of(v, conv) for v in op.inputs if is_memref(v)],
                        [root_of(v, conv) for v in op.outputs if is_memref(v)]))
        elif n == "memref.dealloc":
            # every core runs the dealloc; against the DM / compute op still using the buffer it acts like a
            # write from a third party (pseudo core 2)
            out.append(("RLeaf", conv.oid(op), 2, False, [], [root_of(op.operands[0], conv)]))
        elif n == "scf.yield" and op.parent_op().name == "scf.for":
            continue
        else:
            if any(True for r in op.regions for b in r.blocks for _ in b.ops):
                raise Unsupported(f"region op {n}")
            out.append(("RLeaf", conv.oid(op), -1, False, [], []))
    return out


def tree_final(block, conv, core=None):
    """tree of the FINAL IR (after dispatch-regions and snax-to-func): the core of an op is the core guard it sits
    under; an unguarded DM/compute op is executed by every core (one leaf per core); barriers are the calls to
    snax_cluster_hw_barrier"""
    from props import c14
    out = []
    for op in block.ops:
        n = op.name
        if n == "scf.for":
            out.append(("RFor", conv.oid(op), tree_final(op.body.block, conv, core)))
        elif n == "scf.if":
            k = c14._cmp_const(op.cond)
            if k is not None:
                out += tree_final(op.true_region.block, conv, int(k))
            else:
                th = tree_final(op.true_region.block, conv, core)
                el = tree_final(op.false_region.block, conv, core) if op.false_region.blocks else []
                out.append(("RIf", conv.oid(op), th, el))
        elif n == "func.call" and op.callee.string_value() == "snax_cluster_hw_barrier":
            out.append(("RLeaf", conv.oid(op), -1, True, [], []))
        elif n == "snax.cluster_sync_op":
            out.append(("RLeaf", conv.oid(op), -1, True, [], []))
        elif n in ("memref.copy", "linalg.generic", "dart.operation"):
            if n == "memref.copy":
                rd, wr = [root_of(op.source, conv)], [root_of(op.destination, conv)]
            else:
                rd = [root_of(v, conv) for v in op.inputs if is_memref(v)]
                wr = [root_of(v, conv) for v in op.outputs if is_memref(v)]
            for c in ([core] if core is not None else [0, 1]):
                out.append(("RLeaf", conv.oid(op), c, False, rd, wr))
        elif n == "scf.yield" and op.parent_op().name == "scf.for":
            continue
        else:
            if any(True for r in op.regions for b in r.blocks for _ in b.ops):
                raise Unsupported(f"region op {n}")
            out.append(("RLeaf", conv.oid(op), -1, False, [], []))
    return out


def coq_tree(t):
    def st(s):
        if s[0] == "RLeaf":
            return f"RLeaf {zlit(s[1])} {zlit(s[2])} {boollit(s[3])} {vlib.zlist(s[4])} {vlib.zlist(s[5])}"
        if s[0] == "RFor":
            return f"RFor {zlit(s[1])} {coq_tree(s[2])}"
        return f"RIf {zlit(s[1])} {coq_tree(s[2])} {coq_tree(s[3])}"
    return coqlist(st(s) for s in t)


def cnode(op, conv):
    return (conv.oid(op), kind_of(op), [conv.vid(v) for v in op.operands], [conv.vid(v) for v in op.results])


def ctree(block, conv):
    """the input program as a tree with SSA information (coq/Model/C13Tree.v cstmt)"""
    out = []
    ops = list(block.ops)
    for op in ops:
        if op.name == "scf.for":
            body = op.body.block
            last = body.last_op
            inner_ops = [o for o in body.ops if o is not last]
            sub = ctree_ops(inner_ops, conv)
            out.append(("CFor", cnode(op, conv), sub, cnode(last, conv)))
        elif op.name == "scf.if":
            th = ctree(op.true_region.block, conv)
            el = ctree(op.false_region.block, conv) if op.false_region.blocks else []
            out.append(("CIf", cnode(op, conv), th, el))
        else:
            inner = [(conv.oid(i.parent_op()), cnode(i, conv)) for i in op.walk() if i is not op]
            out.append(("CLeaf", cnode(op, conv), inner))
    return out


def ctree_ops(ops, conv):
    class _B:  # a block-like view of a list of ops
        def __init__(self, ops):
            self.ops = ops
    return ctree(_B(ops), conv)


def coq_node(n):
    return f"(mkN {zlit(n[0])} {n[1]} {vlib.zlist(n[2])} {vlib.zlist(n[3])})"


def coq_ctree(t):
    def st(s):
        if s[0] == "CLeaf":
            inner = coqlist(f"({zlit(p)}, {coq_node(n)})" for p, n in s[2])
            return f"CLeaf {coq_node(s[1])} {inner}"
        if s[0] == "CFor":
            return f"CFor {coq_node(s[1])} {coq_ctree(s[2])} {coq_node(s[3])}"
        return f"CIf {coq_node(s[1])} {coq_ctree(s[2])} {coq_ctree(s[3])}"
    return coqlist(st(s) for s in t)


def run_real(text):
    """returns (flat input, set of op ids the real pass put a barrier before, tree of the real output, conv)"""
    from snaxc.transforms.insert_sync_barrier import InsertSyncBarrier
    mod = mc_ir.parse(text)
    fop = find_func(mod)
    conv = Conv()
    flat = conv.flat(fop)
    conv.root = conv.oid(fop)
    conv.nblocks = len(fop.body.blocks)
    conv.ct = [s for b in fop.body.blocks for s in ctree(b, conv)]
    known_ops = set(conv.op_ids)
    InsertSyncBarrier().apply(mc_ir.xctx(), mod)
    mod.verify()
    bars = []
    for op in find_func(mod).walk():
        if op.name == "snax.cluster_sync_op" and id(op) not in known_ops:
            nxt = op.next_op
            if nxt is None or id(nxt) not in known_ops:
                raise Unsupported("inserted barrier is not followed by an original op")
            bars.append(conv.op_ids[id(nxt)])
    t = tree(find_func(mod).body.blocks[0], conv)
    return flat, sorted(bars), t, conv, mod


HEADER = "From Snax Require Import Base.Prelude Model.MultiCore Model.C13SyncBarrier Model.C13Paths Model.C13Tree.\n"


def nontrivial(flat):
    byid = {t[0]: t for t in flat}
    for x in flat:
        if x[1] in ("BDM", "BCompute"):
            vals = set(x[2] + x[3])
            for u in flat:
                if u[0] != x[0] and u[1] != x[1] and vals & set(u[2]):
                    return True
    return False


# ------------------------------------------------------------------ L1
def correspondence(ctx):
    rng = ctx.rng
    n = ctx.n(100, 600)
    dis, cases, meta = [], [], []
    for i in range(n):
        text = gen_case(rng, adversarial=(i % 3 == 2))
        try:
            flat, bars, t, conv, _ = run_real(text)
        except Unsupported as e:
            dis.append({"name": "L1:convert", "detail": str(e), "text": text})
            continue
        except Exception as e:
            dis.append({"name": "L1:pass-crash", "detail": repr(e)[:300], "text": text})
            continue
        cases.append(f"({coq_flat(flat)}, {vlib.zlist(bars)}, {zlit(conv.root)}, {coq_ctree(conv.ct)}, {coq_tree(t)})")
        meta.append({"text": text, "real_barriers_before": bars})
        ctx.count({"ops": len(flat), "barriers": len(bars)}, nontrivial(flat), text, f"bars={min(len(bars), 6)}")
    shards = [cases[i:i + SH] for i in range(0, len(cases), SH)]
    texts = [HEADER + f"Definition cs : list (list opinfo * list Z * Z * list cstmt * list rstmt) := {coqlist(sh)}.\n"
             # (1) barrier positions of the real pass = the model's walk
             "Eval vm_compute in failing (fun c => match c with (fl, bs, p0, T, t) => let b := barriers fl in "
             "forallb (fun x => memb x bs) b && forallb (fun x => memb x b) bs end) cs.\n"
             # (2) the pre-order list the real walk visits = flatl of the program tree read off the IR
             "Eval vm_compute in failing (fun c => match c with (fl, bs, p0, T, t) => list_eqb opinfo_eqb (flatl p0 false 0 T) fl end) cs.\n"
             # (3) the program tree of the real output = outl of the modelled pass (same nesting, ops, barrier places)
             "Eval vm_compute in failing (fun c => match c with (fl, bs, p0, T, t) => rshapel_eqb (outl (barriers fl) T) t end) cs.\n"
             # statistics: programs wholly in the SameLevel class (C13_tree_pass_all_guarded applies)
             "Eval vm_compute in failing (fun c => match c with (fl, bs, p0, T, t) => negb (sl_program p0 T) end) (firstn 2 cs).\n"
             for sh in shards]
    res = vlib.coq_eval_many("c13l1_", texts, timeout=600)
    nsl = 0
    for si, (ok, out) in enumerate(res):
        lists = vlib.parse_all_eval_lists(out)
        if not ok or len(lists) != 4:
            dis.append({"name": "L1:cases-file", "detail": out[-1500:]})
            continue
        for idx in lists[0]:
            dis.append({"name": "L1:barrier-positions", **meta[si * SH + idx]})
        for idx in lists[1]:
            dis.append({"name": "L1:flatten (tree vs pre-order walk)", **meta[si * SH + idx]})
        for idx in lists[2]:
            dis.append({"name": "L1:output-tree shape", **meta[si * SH + idx]})
        nsl += len(lists[3])
    ctx.extra["L1_programs_in_SameLevel_class"] = nsl
    ctx.extra["L1_programs_classified"] = sum(min(2, len(sh)) for sh in shards)
    return dis


# ------------------------------------------------------------------ L2
L2_DEFS = """
Definition orc (s : Z) : roracle := mkROracle
  (fun id ctx => Z.to_nat ((id * 7 + s + Z.of_nat (length ctx) * 3 + Z.of_nat (list_sum ctx)) mod 4))
  (fun id ctx => Z.even ((id * 5 + s + Z.of_nat (list_sum ctx)) / 2)).
Definition orc2 : roracle := mkROracle (fun _ _ => 2%nat) (fun _ _ => true).
Definition orc3 : roracle := mkROracle (fun _ _ => 3%nat) (fun _ _ => false).
(* races over the sampled oracles; the one with the smallest class (0 = inside the proved class)
   is reported: [a; b; class] or [] *)
Definition l2_eval (c : list opinfo * list Z * list rstmt) : list Z :=
  let '(flat, bars, t) := c in
  let races := flat_map (fun o => all_races (rrunl o t [])) [orc2; orc3; orc 0; orc 1; orc 2; orc 5] in
  let cl := map (fun xy => let a := hd 0 (o_name (fst xy)) in let b := hd 0 (o_name (snd xy)) in
                       (classify_pair2 flat bars (list_eqb Z.eqb (tl (o_name (fst xy))) (tl (o_name (snd xy)))) a b, a, b)) races in
  (* first entry: 1 = every conflicting pair of static ops is structurally guarded (then, by
     C13_all_guarded_phases_drf, NO path of the program has a race: a sampled race would contradict it) *)
  (if all_guarded t then 1 else 0) ::
  match find (fun r => fst (fst r) =? 0) cl with
  | Some (c0, a, b) => [a; b; c0]
  | None => match cl with (c0, a, b) :: _ => [a; b; c0] | [] => [] end
  end.
"""
KLASS = {0: None, 1: "alias_via_view", 2: "cross_level", 3: "ctl_between"}


def after_passes(mod):
    """insert-sync-barrier -> dispatch-regions -> snax-to-func on the real module; returns a list of problems:
    a barrier under a core guard, a DM/compute op (by the property's classification) that is not under the
    guard of its core, a barrier lost by snax-to-func"""
    from snaxc.transforms.dispatch_regions import DispatchRegions
    from snaxc.transforms.snax_to_func import SNAXToFunc
    from props import c14
    problems = []
    DispatchRegions(nb_cores=2).apply(mc_ir.xctx(), mod)
    mod.verify()
    nsync = 0
    for op in mod.walk():
        guards = []
        p = op.parent_op()
        while p is not None and p.name != "func.func":
            if p.name == "scf.if" and c14._cmp_const(p.cond) is not None:
                guards.append(int(c14._cmp_const(p.cond)))
            p = p.parent_op()
        if op.name == "snax.cluster_sync_op":
            nsync += 1
            if guards:
                problems.append("a barrier is under a core-specific guard after dispatch-regions")
        else:
            k = mc_ir.spec_kind(op)
            inner = op.parent_op() is not None and mc_ir.spec_kind(op.parent_op()) != "KOther"
            if k != "KOther" and not inner:
                want = 1 if k == "KDM" else 0
                if guards != [want]:
                    problems.append(f"{op.name} ({k}) is not under the guard of core {want} after dispatch-regions (guards: {guards})")
    SNAXToFunc().apply(mc_ir.xctx(), mod)
    mod.verify()
    ncalls = sum(1 for op in mod.walk() if op.name == "func.call" and op.callee.string_value() == "snax_cluster_hw_barrier")
    if ncalls != nsync:
        problems.append(f"snax-to-func turned {nsync} cluster barriers into {ncalls} barrier calls")
    return problems


def run_l2(ctx, texts_in):
    fails, cases, meta = [], [], []
    for text in texts_in:
        try:
            flat, bars, t, conv, mod = run_real(text)
            for pr in sorted(set(after_passes(mod))):
                fails.append({"what": pr, "text": text, "klass": None})
            t_final = tree_final(find_func(mod).body.blocks[0], conv)
        except Unsupported as e:
            fails.append({"what": "convert", "detail": str(e), "text": text, "klass": None})
            continue
        except Exception as e:
            fails.append({"what": "pass crash / invalid IR", "detail": repr(e)[:300], "text": text, "klass": None})
            continue
        cases.append(f"({coq_flat(flat)}, {vlib.zlist(bars)}, {coq_tree(t)})")
        meta.append((text, "after insert-sync-barrier"))
        cases.append(f"({coq_flat(flat)}, {vlib.zlist(bars)}, {coq_tree(t_final)})")
        meta.append((text, "in the final IR (after dispatch-regions and snax-to-func)"))
    shards = [cases[i:i + SH] for i in range(0, len(cases), SH)]
    texts = [HEADER + L2_DEFS + f"Definition cs : list (list opinfo * list Z * list rstmt) := {coqlist(sh)}.\nEval vm_compute in map l2_eval cs.\n"
             for sh in shards]
    res = vlib.coq_eval_many("c13l2_", texts, timeout=600)
    for si, (ok, out) in enumerate(res):
        m = re.search(r"=\s*(\[.*\])\s*:\s*list \(list Z\)", out, re.S)
        if not ok or not m:
            fails.append({"what": "L2 cases file", "detail": out[-1500:], "klass": None})
            continue
        body = m.group(1)
        rows = re.findall(r"\[([^\[\]]*)\]", body[1:-1]) if body.strip() != "[]" else []
        # `[]` rows print as [] : handle by splitting on ';' at depth 1
        rows = split_rows(body)
        for ci, row in enumerate(rows):
            text, where = meta[si * SH + ci]
            certified = bool(row and row[0] == 1)
            ctx.extra["L2_trees"] = ctx.extra.get("L2_trees", 0) + 1
            ctx.extra["L2_trees_all_pairs_guarded"] = ctx.extra.get("L2_trees_all_pairs_guarded", 0) + (1 if certified else 0)
            row = row[1:]
            if row:
                a, b, cls = row
                if certified:
                    fails.append({"what": f"ops #{a} and #{b} race on a sampled path although every conflicting pair is structurally guarded {where} "
                                          "(contradicts C13_all_guarded_phases_drf: converter / semantics inconsistent)",
                                  "ops": [a, b], "text": text, "klass": None})
                else:
                    fails.append({"what": f"ops #{a} and #{b} (different cores) conflict with no barrier between them on some path {where}",
                                  "ops": [a, b], "text": text, "klass": KLASS[cls]})
    return fails


def split_rows(body):
    rows, depth, cur = [], 0, ""
    for ch in body.strip()[1:-1]:
        if ch == "[":
            depth += 1
            cur = ""
        elif ch == "]":
            depth -= 1
            rows.append([int(x) for x in re.findall(r"-?\d+", cur)])
        elif depth > 0:
            cur += ch
    return rows


PROBES = [
    # F19a: DM copy into a buffer, compute reads a subview of it
    ("""func.func @f(%a0 : memref<64xi32>, %a1 : memref<64xi32>, %n : index, %cond : i1) {
  %b0 = memref.alloc() : memref<64xi32>
  %b1 = memref.alloc() : memref<64xi32>
  %v0 = memref.subview %b0[0][64][1] : memref<64xi32> to memref<64xi32, strided<[1]>>
  "memref.copy"(%a0, %b0) : (memref<64xi32>, memref<64xi32>) -> ()
  """ + mc_ir.t_generic(["%v0"], ["%b1"], 1).replace("ins(%v0 : memref<64xi32>)", "ins(%v0 : memref<64xi32, strided<[1]>>)") + """
  func.return
}""", "alias_via_view"),
    # F19b: producer in the outer loop body, consumer in an inner loop
    ("""func.func @f(%a0 : memref<64xi32>, %a1 : memref<64xi32>, %n : index, %cond : i1) {
  %c0 = arith.constant 0 : index
  %c1 = arith.constant 1 : index
  %b0 = memref.alloc() : memref<64xi32>
  %b1 = memref.alloc() : memref<64xi32>
  scf.for %i = %c0 to %n step %c1 {
    "memref.copy"(%a0, %b0) : (memref<64xi32>, memref<64xi32>) -> ()
    scf.for %j = %c0 to %n step %c1 {
      """ + mc_ir.t_generic(["%b0"], ["%b1"], 1) + """
    }
  }
  func.return
}""", "cross_level"),
    # F19c: the barrier inserted inside the branch clears the list for the op after the scf.if
    ("""func.func @f(%a0 : memref<64xi32>, %a1 : memref<64xi32>, %n : index, %cond : i1) {
  %b0 = memref.alloc() : memref<64xi32>
  %b1 = memref.alloc() : memref<64xi32>
  "memref.copy"(%a0, %b0) : (memref<64xi32>, memref<64xi32>) -> ()
  scf.if %cond {
    """ + mc_ir.t_generic(["%b0"], ["%b1"], 1) + """
  }
  """ + mc_ir.t_generic(["%b0"], ["%b1"], 2) + """
  func.return
}""", "ctl_between"),
]


CORPUS = [
    # the last access of a buffer goes through a view, then the allocation is freed: the dealloc clause
    # (triggered by the alloc / subview) must put a barrier before the dealloc
    """func.func @f(%a0 : memref<64xi32>, %a1 : memref<64xi32>, %n : index, %cond : i1) {
  %b0 = memref.alloc() : memref<64xi32>
  %b1 = memref.alloc() : memref<64xi32>
  %v0 = memref.subview %b0[0][64][1] : memref<64xi32> to memref<64xi32, strided<[1]>>
  """ + mc_ir.t_generic(["%v0"], ["%b1"], 1).replace("ins(%v0 : memref<64xi32>)", "ins(%v0 : memref<64xi32, strided<[1]>>)") + """
  "memref.dealloc"(%b0) : (memref<64xi32>) -> ()
  func.return
}""",
    # two blocks, dispatchable ops in both, a barrier and a dealloc in the second
    """func.func @f(%a0 : memref<64xi32>, %a1 : memref<64xi32>, %n : index, %cond : i1) {
  %b0 = memref.alloc() : memref<64xi32>
  "memref.copy"(%a0, %b0) : (memref<64xi32>, memref<64xi32>) -> ()
  cf.br ^bb1
^bb1:
  """ + mc_ir.t_generic(["%b0"], ["%a1"], 1) + """
  "memref.copy"(%a1, %a0) : (memref<64xi32>, memref<64xi32>) -> ()
  "memref.dealloc"(%b0) : (memref<64xi32>) -> ()
  func.return
}""",
    # an xDMA streaming region whose kernel has an extension's op class on undeclared operand types is
    # compute work: it must be synchronised with the DM copy feeding it (and dispatched to the compute core)
    """func.func @f(%a0 : memref<64xi32>, %a1 : memref<64xi32>, %n : index, %cond : i1) {
  %e0 = memref.alloc() : memref<64xi64>
  %e1 = memref.alloc() : memref<64xi64>
  "memref.copy"(%e1, %e0) : (memref<64xi64>, memref<64xi64>) -> ()
  """ + mc_ir.t_stream("snax_xdma", "add", "%e0", "%e0", "%e1", 1, el="i64") + """
  func.return
}""",
    # early free: load / compute / dealloc(input) / DM store(result): the barrier in front of the dealloc is the
    # only one between the compute op and the store
    """func.func @f(%a0 : memref<64xi32>, %a1 : memref<64xi32>, %n : index, %cond : i1) {
  %b0 = memref.alloc() : memref<64xi32>
  %b1 = memref.alloc() : memref<64xi32>
  "memref.copy"(%a0, %b0) : (memref<64xi32>, memref<64xi32>) -> ()
  """ + mc_ir.t_generic(["%b0"], ["%b1"], 1) + """
  "memref.dealloc"(%b0) : (memref<64xi32>) -> ()
  "memref.copy"(%b1, %a1) : (memref<64xi32>, memref<64xi32>) -> ()
  func.return
}""",
    # compute -> (unrelated DM copy) -> DM copy of the result: the inserted barrier lies between two DM ops; after
    # dispatch-regions the second copy must still come after it
    """func.func @f(%a0 : memref<64xi32>, %a1 : memref<64xi32>, %n : index, %cond : i1) {
  %b1 = memref.alloc() : memref<64xi32>
  %b2 = memref.alloc() : memref<64xi32>
  %b3 = memref.alloc() : memref<64xi32>
  """ + mc_ir.t_generic(["%a0"], ["%b1"], 1) + """
  "memref.copy"(%b2, %b3) : (memref<64xi32>, memref<64xi32>) -> ()
  "memref.copy"(%b1, %a1) : (memref<64xi32>, memref<64xi32>) -> ()
  func.return
}""",
    # loop body whose last cross-core op is the compute op
    """func.func @f(%a0 : memref<64xi32>, %a1 : memref<64xi32>, %n : index, %cond : i1) {
  %c0 = arith.constant 0 : index
  %c1 = arith.constant 1 : index
  %b0 = memref.alloc() : memref<64xi32>
  scf.for %i = %c0 to %n step %c1 {
    "memref.copy"(%a0, %b0) : (memref<64xi32>, memref<64xi32>) -> ()
    """ + mc_ir.t_generic(["%b0"], ["%a1"], 1) + """
  }
  func.return
}""",
]


def search(ctx, deep=False):
    rng = ctx.rng
    n = ctx.n(80, 500) * (3 if deep else 1)
    texts = list(CORPUS)
    for i in range(n):
        t = gen_case(rng, adversarial=(i % 4 == 3))
        texts.append(t)
        ctx.count({"L2": "program", "len": len(t)}, True, t, "L2")
    fails = run_l2(ctx, texts)
    ctx.extra["L2_failures_by_class"] = {str(k): sum(1 for f in fails if f["klass"] == k) for k in {f["klass"] for f in fails}}
    fails.sort(key=lambda f: len(f.get("text", "")))
    seen, out = set(), []
    for f in fails:
        if f["klass"] not in seen:
            seen.add(f["klass"])
            out.append(f)
    return out


_KNOWN_CACHE = None


def replay_known(ctx, entry):
    global _KNOWN_CACHE
    if _KNOWN_CACHE is None:
        _KNOWN_CACHE = run_l2(ctx, [p[0] for p in PROBES])
    want = entry["class"]
    text = next(p[0] for p in PROBES if p[1] == want)
    return any(f.get("text") == text and f["klass"] == want for f in _KNOWN_CACHE)


def replay(ctx, obj):
    f = obj.get("failure")
    if not f or "text" not in f:
        print("no failing input recorded; broken obligations:", obj.get("no_longer_checks"))
        return 1
    print(f["text"])
    try:
        flat, bars, t, conv, mod = run_real(f["text"])
        print("---- real output\n" + str(mod))
    except Exception as e:
        print("FAIL", repr(e))
        return 1
    fails = run_l2(ctx, [f["text"]])
    for x in fails:
        print("FAIL class=%s: %s" % (x["klass"], x["what"]))
    return 1 if fails else 0
