"""C02 — streamer address streams equal the scheduled element stream.

(H) hand model coq/Model/C02Stream.v.
L1: the real `dart-layout-resolution` pass (strides per operand) and the real
    ConvertStreamToSnaxStreamPattern (raw per-operand StridePatterns captured at the call of
    Accelerator.set_stride_patterns, error kinds, final canonicalised patterns) against the model on
    generated dart.schedule / dart.access_pattern ops for snax_alu and snax_gemmx.
L2: the property on the implementation only: every byte of every temporal step enumerated from the real
    final StridePatterns vs the element bytes computed from the real memref type/layout and the real
    schedule maps.
"""
from __future__ import annotations

import itertools
import warnings

import vlib
from vlib import coqlist, zlist, zlit, boollit

from props import c08 as H   # shared harness helpers of the same owner (context, dart bodies)

PROPERTY = "C02"
MODEL_TARGETS = ["Model/C02Stream.vo", "Model/C02Gemmx.vo", "Model/C02Xdma.vo", "Model/C02Check.vo"]
RULE = ("layout resolution: 1-4 iteration dims, rank 1-3 operands, element widths 8/16/32/64, layouts none / strided "
        "(+offset) / tiled-strided (1-2 tile levels, aligned and misaligned with the schedule), affine schedules with "
        "offsets; conversion: snax_alu (1 template dim) and snax_gemmx (3 template dims, matmul i32/i8, gemm with "
        "broadcast C) access patterns with 0-3 temporal dims, contiguous lattices, zero strides, non-contiguous and "
        "non-divisible variants; non-trivial = at least 2 dims with bound > 1; distinct = distinct (layout, schedule) "
        "or (accelerator, strides, bounds)")
TRUSTED_BASE = [
    "Coq 8.16.1 kernel + vm_compute (no native_compute)",
    "hand model coq/Model/C02Stream.v of dart_layout_resolution.py, convert_dart_to_snax_stream.py (per operand), "
    "StridePattern.canonicalize, tied by L1 (this harness)",
    "harness/props/c02.py generators, Coq-literal printer, the byte enumerators of L2; harness/xdsl_compat.py; "
    "xDSL 0.70 MemRefType.get_affine_map_in_bytes / AffineMap.compose / eval / Parser; numpy",
    "streamer hardware semantics as documented (words = base + sum tau_k*ts_k + sum p_l*ss_l, 8 bytes each)",
]
ASSUMPTIONS = [
    "gemmx and xDMA set_stride_patterns are modelled (Model/C02Gemmx.v, C02Xdma.v) and L1-checked; the hardware meaning of a "
    "`zero address` slot and of the add extension's 512-byte second operand is taken from the code comments",
    "the aligned tiled-strided linearity theorem covers one index dimension; multi-dimensional tiled operands are L1/L2 only",
    "dynamic shapes/symbols are outside the passes' domain (they raise)",
]
ELS = {"i8": 1, "i16": 2, "i32": 4, "i64": 8}


# ---------------------------------------------------------------- helpers
def _prod(xs):
    r = 1
    for x in xs:
        r *= x
    return r


def affine_text(n, rows, offs):
    dims = ", ".join(f"d{j}" for j in range(n))
    exprs = []
    for row, b in zip(rows, offs):
        terms = [(f"d{j} * {a}" if a != 1 else f"d{j}") for j, a in enumerate(row) if a != 0]
        if b != 0 or not terms:
            terms.append(str(b))
        exprs.append(" + ".join(terms))
    return f"affine_map<({dims}) -> ({', '.join(exprs)})>"


def memref_text(shape, el, layout):
    s = "x".join(str(x) for x in shape) + "x" + el
    if layout[0] == "none":
        return f"memref<{s}>"
    if layout[0] == "strided":
        _, strides, off = layout
        o = f", offset: {off}" if off else ""
        return f"memref<{s}, strided<[{', '.join(map(str, strides))}]{o}>>"
    _, tiles = layout
    parts = []
    for t in tiles:
        parts.append(f"[{', '.join(str(b) for (_, b) in t)}] -> ({', '.join(str(st) for (st, _) in t)})")
    return f"memref<{s}, #tsl.tsl<{', '.join(parts)}>>"


def coq_layout(shape, layout):
    if layout[0] == "none":
        strides = [_prod(shape[i + 1:]) for i in range(len(shape))]
        return f"(LStrided {zlist(strides)} 0%Z)"
    if layout[0] == "strided":
        return f"(LStrided {zlist(layout[1])} {zlit(layout[2])})"
    return "(LTsl " + coqlist(coqlist(f"({zlit(st)}, {zlit(b)})" for (st, b) in t) for t in layout[1]) + ")"


def schedule_text(acc, operands, n, bounds, kind="dart.schedule", body=None):
    """operands = [(memref text, affine text)]"""
    args = ", ".join(f"%mem{i} : {t}" for i, (t, _) in enumerate(operands))
    names = ", ".join(f"%mem{i}" for i in range(len(operands)))
    pats = ", ".join(p for (_, p) in operands)
    tiles = "tiles = [[]], " if kind == "dart.schedule" else ""
    bnds = ", ".join(f"{b} : index" for b in bounds)
    n_in = len(operands) - 1
    body = body or {"args": ["i64"] * len(operands), "ops": ['"test.op"() : () -> ()'], "pre": []}
    streams = ", ".join(f"%s{i} : !dart.stream<{t}>" for i, t in enumerate(body["args"]))
    lines = [f"func.func public @f({args}) {{"] + list(body.get("pre", [])) + [
        f'"{kind}"({names}) <{{patterns = [{pats}], accelerator = "{acc}", {tiles}bounds = [{bnds}], '
        f"operandSegmentSizes = array<i32: {n_in}, 1>}}> ({{",
        f"^bb0({streams}):"] + list(body["ops"]) + [
        "}) : (" + ", ".join(t for (t, _) in operands) + ") -> ()", "func.return", "}"]
    return "\n".join(lines)


def parse(text, acc_obj=None):
    from xdsl.parser import Parser
    pre = (str(acc_obj.generate_acc_op()) + "\n") if acc_obj is not None else ""
    return Parser(H.xctx(), pre + text).parse_module()


# ---------------------------------------------------------------- layout-resolution cases
def gen_layout(rng, shape, el, aligned_tiles=None):
    kind = rng.choice(["none", "strided", "strided", "tsl", "tsl"])
    if kind == "none":
        return ("none",)
    if kind == "strided":
        mode = rng.choice(["rowmajor", "padded", "random"])
        if mode == "rowmajor":
            strides = [_prod(shape[i + 1:]) for i in range(len(shape))]
        elif mode == "padded":
            strides, cur = [], 1
            for d in reversed(shape):
                strides.insert(0, cur)
                cur = cur * d + rng.choice([0, 1, 3])
        else:
            strides = [rng.choice([1, 2, 3, 5, 8, 16, 40]) for _ in shape]
        return ("strided", strides, rng.choice([0, 0, 0, 5, 3, 64]))
    tiles = []
    for d in shape:
        facs = [(a, d // a) for a in range(1, d + 1) if d % a == 0]
        outer, inner = rng.choice(facs)
        if rng.random() < 0.35:
            outer, inner = d, 1
        t = [(0, outer), (0, inner)] if inner != 1 or rng.random() < 0.3 else [(0, outer)]
        tiles.append(t)
    pos = [(i, j) for i, t in enumerate(tiles) for j in range(len(t))]
    rng.shuffle(pos)
    cur = 1
    for (i, j) in pos:
        tiles[i][j] = (cur, tiles[i][j][1])
        cur *= tiles[i][j][1]
    return ("tsl", tiles)


def gen_resolve_op(rng):
    n = rng.choice([1, 2, 2, 3, 3, 4])
    bounds = [rng.choice([1, 2, 2, 3, 4, 4, 8]) for _ in range(n)]
    ops = []
    for _ in range(3):
        rank = rng.choice([1, 1, 2, 2, 3])
        el = rng.choice(list(ELS))
        mode = rng.choice(["tiled", "perm", "random"])
        rows = [[0] * n for _ in range(rank)]
        if mode == "tiled":       # index_d = sum of a mixed-radix group of iteration dims
            for j in range(n):
                rows[rng.randrange(rank)][j] = 1
            for r in rows:
                cur = 1
                for j in reversed(range(n)):
                    if r[j]:
                        r[j] = cur
                        cur *= bounds[j]
        elif mode == "perm":
            for j in range(n):
                rows[rng.randrange(rank)][j] = rng.choice([1, 1, 2])
        else:
            rows = [[rng.choice([0, 0, 1, 2, 3]) for _ in range(n)] for _ in range(rank)]
        offs = [rng.choice([0, 0, 0, 1, 4]) for _ in range(rank)]
        shape = [sum(a * (b - 1) for a, b in zip(r, bounds)) + o + 1 for r, o in zip(rows, offs)]
        shape = [s + rng.choice([0, 0, 1]) for s in shape]
        layout = gen_layout(rng, shape, el)
        ops.append({"rows": rows, "offs": offs, "shape": shape, "el": el, "layout": layout})
    return n, bounds, ops


def impl_resolve(n, bounds, ops):
    """strides per operand from the real pass (None when it raises)"""
    from snaxc.accelerators.snax_alu import SNAXAluAccelerator
    from snaxc.ir.dart.affine_transform import AffineTransform
    from snaxc.transforms.dart.dart_layout_resolution import DartLayoutResolutionPass
    operands = [(memref_text(o["shape"], o["el"], o["layout"]), affine_text(n, o["rows"], o["offs"])) for o in ops]
    mod = parse(schedule_text("snax_alu", operands, n, bounds), SNAXAluAccelerator())
    DartLayoutResolutionPass().apply(H.xctx(), mod)
    ap = [o for o in mod.walk() if o.name == "dart.access_pattern"][0]
    out = []
    for p in ap.patterns.data:
        t = AffineTransform.from_affine_map(p.data)
        assert t.A.shape[0] == 1 and int(t.b[0]) == 0
        out.append([int(x) for x in t.A[0]])
    # the constant term goes to the base pointer (repaired F5b): constant added to the aligned pointer
    impl_resolve.offsets = [pointer_offset(v) for v in ap.operands]
    return out, mod


# ---------------------------------------------------------------- conversion cases
def gemmx_conv_body(kind):
    """bodies get_template / get_streamers of gemmx distinguish: mm_i32, mm_i8, gemm_i32"""
    pre = []
    mac = H._generic("%g", ["%s0", "%s1"], ["!dart.stream<i8>", "!dart.stream<i8>"], "%a : i8, %b : i8, %c : i32",
                     "%k = kernel.mac %a, %b : i8, i8 -> i32", "i32", "%k")
    if kind == "mm_i32":
        return {"args": ["i8", "i8", "i32"], "pre": pre, "ops": mac + ["dart.yield %g : !dart.stream<i32>"]}
    if kind == "mm_i8":
        r = {"zpin": 0, "zpout": 0, "mult": [1], "shift": [0], "max": 127, "min": -128, "dr": 0}
        resc = H._generic("%h", ["%g"], ["!dart.stream<i32>"], "%a2 : i32, %c2 : i8",
                          f'%k2 = "kernel.rescale"(%a2) {H._rescale_attrs(r)} : (i32) -> i8', "i8", "%k2")
        return {"args": ["i8", "i8", "i8"], "pre": pre, "ops": mac + resc + ["dart.yield %h : !dart.stream<i8>"]}
    if kind == "simd":
        r = {"zpin": 0, "zpout": 0, "mult": [1], "shift": [0], "max": 127, "min": -128, "dr": 0}
        resc = H._generic("%g", ["%s0"], ["!dart.stream<i32>"], "%a : i32, %c : i8",
                          f'%k = "kernel.rescale"(%a) {H._rescale_attrs(r)} : (i32) -> i8', "i8", "%k")
        return {"args": ["i32", "i8"], "pre": pre, "ops": resc + ["dart.yield %g : !dart.stream<i8>"]}
    add = H._generic("%h", ["%g", "%s2"], ["!dart.stream<i32>", "!dart.stream<i32>"], "%a2 : i32, %b2 : i32, %c2 : i32",
                     "%k2 = kernel.add %a2, %b2 : i32, i32 -> i32", "i32", "%k2")
    if kind == "gemm_i8":
        r = {"zpin": 0, "zpout": 0, "mult": [1], "shift": [0], "max": 127, "min": -128, "dr": 0}
        resc = H._generic("%j", ["%h"], ["!dart.stream<i32>"], "%a3 : i32, %c3 : i8",
                          f'%k3 = "kernel.rescale"(%a3) {H._rescale_attrs(r)} : (i32) -> i8', "i8", "%k3")
        return {"args": ["i8", "i8", "i32", "i8"], "pre": pre, "ops": mac + add + resc + ["dart.yield %j : !dart.stream<i8>"]}
    return {"args": ["i8", "i8", "i32", "i32"], "pre": pre, "ops": mac + add + ["dart.yield %h : !dart.stream<i32>"]}


def xdma_conv_body(kind):
    """bodies the xDMA extensions recognise: kernel.add on i32 (AddExtension), kernel.rescale i32->i8 / i8->i32"""
    if kind == "xadd":
        add = H._generic("%g", ["%s0", "%s1"], ["!dart.stream<i32>", "!dart.stream<i32>"], "%a : i32, %b : i32, %c : i32",
                         "%k = kernel.add %a, %b : i32, i32 -> i32", "i32", "%k")
        return {"args": ["i32", "i32", "i32"], "pre": [], "ops": add + ["dart.yield %g : !dart.stream<i32>"]}
    r = {"zpin": 0, "zpout": 0, "mult": [1], "shift": [0], "max": 127, "min": -128, "dr": 0}
    a, b = ("i32", "i8") if kind == "xresc_down" else ("i8", "i32")
    resc = H._generic("%g", ["%s0"], [f"!dart.stream<{a}>"], f"%a : {a}, %c : {b}",
                      f'%k = "kernel.rescale"(%a) {H._rescale_attrs(r)} : ({a}) -> {b}', b, "%k")
    return {"args": [a, b], "pre": [], "ops": resc + [f"dart.yield %g : !dart.stream<{b}>"]}


_XDMA_CTX = None


def xdma_ctx():
    """the snax-opt context with snax_xdma registered (the tool registers it from a hardware configuration file)"""
    global _XDMA_CTX
    if _XDMA_CTX is None:
        from snaxc.accelerators.snax_xdma import SNAXXDMAAccelerator
        c = H.xctx().clone()
        if c.get_optional_accelerator("snax_xdma") is None:
            c.register_accelerator("snax_xdma", SNAXXDMAAccelerator)
        _XDMA_CTX = c
    return _XDMA_CTX


XDMA_FAMS = ("xadd", "xresc_down", "xresc_up")

ACCS = {
    "xadd": {"acc": "snax_xdma", "tdims": [16], "rel": [[True]] * 3, "els": [4, 4, 4]},
    "xresc_down": {"acc": "snax_xdma", "tdims": [16], "rel": [[True]] * 2, "els": [4, 1]},
    "xresc_up": {"acc": "snax_xdma", "tdims": [16], "rel": [[True]] * 2, "els": [1, 4]},
    # name: (template relevance per operand over the template dims, element bytes per operand)
    "alu": {"acc": "snax_alu", "tdims": [4], "rel": [[True]] * 3, "els": [8, 8, 8]},
    "mm_i32": {"acc": "snax_gemmx", "tdims": [8, 8, 8], "rel": [[True, False, True], [False, True, True], [True, True, False]],
               "els": [1, 1, 4]},
    "mm_i8": {"acc": "snax_gemmx", "tdims": [8, 8, 8], "rel": [[True, False, True], [False, True, True], [True, True, False]],
              "els": [1, 1, 1]},
    "gemm_i8": {"acc": "snax_gemmx", "tdims": [8, 8, 8],
                "rel": [[True, False, True], [False, True, True], [True, True, False], [True, True, False]], "els": [1, 1, 4, 1]},
    "simd": {"acc": "snax_gemmx", "tdims": [8, 8], "rel": [[True, True], [True, True]], "els": [4, 1]},
    "gemm_i32": {"acc": "snax_gemmx", "tdims": [8, 8, 8],
                 "rel": [[True, False, True], [False, True, True], [True, True, False], [True, True, False]], "els": [1, 1, 4, 4]},
}


def gen_conv_case(rng, family=None, safe_bias=0.75):
    fam = family or rng.choice(["alu", "alu", "alu", "mm_i32", "mm_i8", "gemm_i32", "gemm_i8", "simd", "xadd", "xadd",
                                "xresc_down", "xresc_up"])
    spec = ACCS[fam]
    t = rng.choice([0, 1, 1, 2, 3])
    tb = [rng.choice([1, 2, 2, 3, 4, 6]) for _ in range(t)]
    sb = list(spec["tdims"])
    if rng.random() > safe_bias:
        k = rng.randrange(len(sb))
        sb[k] = rng.choice([1, 2, 4, 8, 16])
    bounds = tb + sb
    n = len(bounds)
    operands = []
    for oi, rel in enumerate(spec["rel"]):
        e = spec["els"][oi]
        relevant = [True] * t + list(rel)
        strides = [0] * n
        order = [j for j in reversed(range(n)) if relevant[j]]
        if rng.random() < 0.5:
            inner = order[:len([x for x in rel if x])]
            rng.shuffle(inner)
            order = inner + order[len(inner):]
        cur = e
        mode = rng.choice(["lattice", "lattice", "lattice", "gaps", "random"])
        for j in order:
            strides[j] = cur
            cur *= bounds[j]
            if mode == "gaps" and rng.random() < 0.4:
                cur *= 2
            if mode == "random":
                cur = rng.choice([8, 16, 64, 100, 256])
        for j in range(n):
            if relevant[j] and rng.random() < 0.08:
                strides[j] = 0
            if not relevant[j] and rng.random() < 0.15:
                strides[j] = rng.choice([4, 8])        # an irrelevant template dim is simply dropped
        if rng.random() > safe_bias and rng.random() < 0.4:
            j = rng.choice(order)
            strides[j] = rng.choice([1, 2, 4, 8, 16, 32, 64])
        operands.append({"strides": strides, "relevant": relevant})
    return {"fam": fam, "bounds": bounds, "operands": operands}


_REC = {"raw": None}
_PATCHED = False


def _patch_recorders():
    global _PATCHED
    if _PATCHED:
        return
    from snaxc.accelerators.snax import SNAXStreamer
    from snaxc.accelerators.snax_gemmx import SNAXGEMMXAccelerator

    def wrap(cls):
        orig = cls.__dict__["set_stride_patterns"]

        def rec(self, op, pats):
            _REC["raw"] = [([x.data for x in p.upper_bounds], [x.data for x in p.temporal_strides],
                            [x.data for x in p.spatial_strides]) for p in pats]
            _REC["custom"] = None
            res = orig(self, op, pats)
            ni, no, np_, ops = res
            operands = list(op.operands)
            srcs = []
            for v in list(ni) + list(no):
                k = [j for j, o in enumerate(operands) if o is v]
                srcs.append(("op", k[0]) if k else ("zero", 0))
            _REC["custom"] = [(([x.data for x in p.upper_bounds], [x.data for x in p.temporal_strides],
                                [x.data for x in p.spatial_strides]), sc) for p, sc in zip(np_, srcs)]
            _REC["ser"] = getattr(self, "serializer_ratio", 0)
            _REC["sd2"] = self.streamer_config.data.streamers[2].spatial_dims[-1] if len(self.streamer_config.data.streamers) > 2 else 0
            return res
        cls.set_stride_patterns = rec
    wrap(SNAXStreamer)
    wrap(SNAXGEMMXAccelerator)
    from snaxc.accelerators.snax_xdma import SNAXXDMAAccelerator
    wrap(SNAXXDMAAccelerator)
    _PATCHED = True


ERRS = {"StopIteration": "EStop", "AssertionError": "EAssert", "ZeroDivisionError": "EZeroDiv", "RuntimeError": "ENonContig",
        "NotImplementedError": "ENotImpl"}


def impl_convert(case):
    """raw per-operand patterns (or error name), final patterns, real spatial dims / broadcast flags"""
    from xdsl.pattern_rewriter import PatternRewriter
    from snaxc.accelerators.snax_alu import SNAXAluAccelerator
    from snaxc.accelerators.snax_gemmx import SNAXGEMMXAccelerator
    from snaxc.accelerators.streamers.streamers import HasBroadcast
    from snaxc.transforms.convert_dart_to_snax_stream import ConvertStreamToSnaxStreamPattern
    _patch_recorders()
    fam = case["fam"]
    spec = ACCS[fam]
    if fam in XDMA_FAMS:
        from snaxc.accelerators.snax_xdma import SNAXXDMAAccelerator
        acc, the_ctx, body = SNAXXDMAAccelerator(), xdma_ctx(), xdma_conv_body(fam)
    elif fam == "alu":
        acc, the_ctx, body = SNAXAluAccelerator(), H.xctx(), None
    else:
        acc, the_ctx, body = SNAXGEMMXAccelerator(), H.xctx(), gemmx_conv_body(fam)
    n = len(case["bounds"])
    operands = [("index", affine_text(n, [o["strides"]], [0])) for o in case["operands"]]
    mod = parse(schedule_text(spec["acc"], operands, n, case["bounds"], "dart.access_pattern", body), acc)
    ap = [o for o in mod.walk() if o.name == "dart.access_pattern"][0]
    streamers = acc.get_streamers(ap)
    tmpl = acc.get_template(ap)
    info = []
    for oi in range(len(case["operands"])):
        rel = [True] * (n - tmpl.num_dims) + [bool(x) for x in tmpl[oi].pattern.A.any(axis=0).tolist()]
        info.append({"spats": list(streamers[oi].spatial_dims), "bcast": any(isinstance(o, HasBroadcast) for o in streamers[oi].opts),
                     "relevant": rel})
    _REC["raw"] = None
    _REC["custom"] = None
    err, final = None, None
    with warnings.catch_warnings():
        warnings.simplefilter("ignore")
        try:
            ConvertStreamToSnaxStreamPattern(the_ctx).match_and_rewrite(ap, PatternRewriter(ap))
        except Exception as e:   # noqa: BLE001
            err = type(e).__name__
    raw = _REC["raw"]
    if err is None:
        sr = [o for o in mod.walk() if o.name == "snax_stream.streaming_region"][0]
        final = [([x.data for x in p.upper_bounds], [x.data for x in p.temporal_strides], [x.data for x in p.spatial_strides])
                 for p in sr.stride_patterns.data]
    custom = (_REC.get("custom"), _REC.get("ser"), _REC.get("sd2")) if raw is not None and fam != "alu" else None
    return raw, err, final, info, custom


def coq_sp(p):
    return f"(mkSP {zlist(p[0])} {zlist(p[1])} {zlist(p[2])})"


def coq_operand(case, oi, info):
    o = case["operands"][oi]
    return (f"({boollit(info['bcast'])}, {zlist(info['spats'])}, {zlist(o['strides'])}, {zlist(case['bounds'])}, "
            f"{coqlist(boollit(b) for b in info['relevant'])})")


# python mirror of convert_okb (tied to the Coq predicate by the `okb` L1 group)
def dims_of(case, oi, info):
    o = case["operands"][oi]
    d = [(s, b) for s, b, r in zip(o["strides"], case["bounds"], info["relevant"]) if r]
    return list(reversed(d))


def convert_okb(e, spats, dims):
    if not dims:
        return False
    s, b = dims[0]
    if not (s == e and e > 0 and b > 0 and (s * b) % 8 == 0):
        return False
    if any(bd < 0 for _, bd in dims):
        return False
    rest = dims[1:]
    if s * b == 8:
        if not rest:
            return False
        cur, rest = rest[0], rest[1:]
    elif s * b < 8:
        return False
    else:
        cur = (8, (s * b) // 8)
    for sp in spats:
        if cur is None:
            return False
        s, b = cur
        if b == sp:
            if b <= 0:
                return False
            cur, rest = (rest[0], rest[1:]) if rest else (None, [])
        elif b < sp:
            if not rest:
                return False
            ns, nb = rest[0]
            if not (b > 0 and sp % b == 0 and s * b == ns and nb >= 0 and nb % (sp // b) == 0):
                return False
            cur, rest = (s * b * (sp // b), nb // (sp // b)), rest[1:]
        else:
            return False
    return True


# ---------------------------------------------------------------- L1
HEADER = "From Snax Require Import Base.Prelude Model.C02Stream Model.C02Gemmx Model.C02Xdma Model.C02Check.\n"


def correspondence(ctx):
    rng = ctx.rng
    groups = []
    # layout resolution
    cases, meta, ocases, ometa = [], [], [], []
    for i in range(ctx.n(80, 400)):
        n, bounds, ops = gen_resolve_op(rng)
        try:
            strides, _ = impl_resolve(n, bounds, ops)
        except Exception as e:   # noqa: BLE001
            ctx.notes.append(f"layout resolution raised {e!r} on {ops}")
            continue
        for o, st, po in zip(ops, strides, impl_resolve.offsets):
            ocases.append(f"({coq_layout(o['shape'], o['layout'])}, {zlit(ELS[o['el']])}, {coqlist(zlist(r) for r in o['rows'])}, "
                          f"{zlist(o['offs'])}, {n}%nat, {zlit(po)})")
            ometa.append({"n": n, "bounds": bounds, "operand": o, "pointer_offset": po})
            cases.append(f"({coq_layout(o['shape'], o['layout'])}, {zlit(ELS[o['el']])}, {coqlist(zlist(r) for r in o['rows'])}, "
                         f"{zlist(o['offs'])}, {n}%nat, {zlist(st)})")
            meta.append({"n": n, "bounds": bounds, "operand": o, "strides": st})
            ctx.count({"kind": "resolve", "bounds": bounds, "operand": o, "strides": st},
                      sum(1 for b in bounds if b > 1) >= 2, f"rs{bounds}{o}", "resolve:" + o["layout"][0])
    groups.append(("resolve", "chk_resolve", cases, meta))
    groups.append(("resolve-offset", "chk_resolve_base", ocases, ometa))

    # conversion
    conv, convm, fin, finm, okb, okbm, strm, strmm, cus, cusm = [], [], [], [], [], [], [], [], [], []
    xcus, xcusm = [], []
    for i in range(ctx.n(160, 800)):
        case = gen_conv_case(rng)
        raw, err, final, info, custom = impl_convert(case)
        ops = coqlist(coq_operand(case, oi, info[oi]) for oi in range(len(info)))
        if raw is not None:
            want = "(Ok " + coqlist(coq_sp(p) for p in raw) + ")"
        else:
            want = f"(Err {ERRS.get(err, 'EStop')})"
            if err not in ERRS:
                ctx.notes.append(f"conversion raised unmapped {err}")
        conv.append(f"({ops}, {want})")
        convm.append({"case": case, "raw": raw, "error": err})
        ctx.count({"kind": "convert", "case": case, "raw": raw, "error": err},
                  sum(1 for b in case["bounds"] if b > 1) >= 2, f"cv{case}", "convert:" + case["fam"] + (":err" if raw is None else ""))
        if custom is not None and raw is not None and case["fam"] in XDMA_FAMS:
            cw = "None" if custom[0] is None else "(Some " + coqlist(
                f"({coq_sp(p)}, {'SZero' if sc[0] == 'zero' else 'SOp ' + str(sc[1])})" for p, sc in custom[0]) + ")"
            xcus.append(f"({'XAdd' if case['fam'] == 'xadd' else 'XDefault'}, {coqlist(coq_sp(p) for p in raw)}, {cw})")
            xcusm.append({"case": case, "raw": raw, "custom": custom})
            ctx.count({"kind": "customise", "fam": case["fam"], "raw": raw}, True, f"cu{case}", "customise:" + case["fam"])
        elif custom is not None and raw is not None:
            kindc = {"mm_i32": "G3_i32", "mm_i8": "G3_i8", "gemm_i32": "G4_i32", "gemm_i8": "G4_i8", "simd": "GSimd"}[case["fam"]]
            cw = "None" if custom[0] is None else "(Some " + coqlist(
                f"({coq_sp(p)}, {'SZero' if sc[0] == 'zero' else 'SOp ' + str(sc[1])})" for p, sc in custom[0]) + ")"
            cus.append(f"({kindc}, {zlit(custom[1])}, {zlit(custom[2])}, {coqlist(coq_sp(p) for p in raw)}, {cw})")
            cusm.append({"case": case, "raw": raw, "custom": custom})
            ctx.count({"kind": "customise", "fam": case["fam"], "raw": raw}, True, f"cu{case}", "customise:" + case["fam"])
        if case["fam"] == "alu" and final is not None:
            fin.append(f"({ops}, {coqlist(coq_sp(p) for p in final)})")
            finm.append({"case": case, "final": final})
        for oi in range(len(info)):
            e = ACCS[case["fam"]]["els"][oi]
            for ee in {e, rng.choice([1, 2, 4, 8])}:
                okb.append(f"({zlit(ee)}, {coq_operand(case, oi, info[oi])}, "
                           f"{boollit(convert_okb(ee, info[oi]['spats'], dims_of(case, oi, info[oi])))})")
                okbm.append({"case": case, "operand": oi, "elsize": ee})
            if _prod(case["bounds"]) <= 4096:
                strm.append(f"({zlit(e)}, {coq_operand(case, oi, info[oi])})")
                strmm.append({"case": case, "operand": oi})
    groups += [("convert", "chk_convert", conv, convm), ("final", "chk_final", fin, finm),
               ("okb", "chk_okb", okb, okbm), ("stream", "chk_stream", strm[:400], strmm[:400]),
               ("customise", "chk_custom", cus, cusm), ("customise-xdma", "chk_xcustom", xcus, xcusm)]
    return H.run_groups("c02", groups, chunk=150, files=4, header=HEADER)


# ---------------------------------------------------------------- L2
def nest_words(ub, ts, ss, spats):
    """word addresses in issue order: temporal nest (dim 0 innermost), inside each step the ports (dim 0 innermost)"""
    steps = []
    for tau in itertools.product(*[range(b) for b in reversed(ub)]):
        base = sum(i * s for i, s in zip(reversed(tau), ts))
        words = []
        for p in itertools.product(*[range(b) for b in reversed(spats)]):
            words.append(base + sum(i * s for i, s in zip(reversed(p), ss)))
        steps.append(words)
    return steps


def expected_steps(memref_type, amap, bounds, n_spatial, relevant, el):
    """element byte addresses per temporal step from the real memref type and the real schedule map"""
    lay = memref_type.get_affine_map_in_bytes()
    t = len(bounds) - n_spatial
    steps = []
    sp_rel = [j for j in range(t, len(bounds)) if relevant[j]]
    for tau in itertools.product(*[range(b) for b in bounds[:t]]):
        addrs = []
        for p in itertools.product(*[range(bounds[j]) for j in sp_rel]):
            x = list(tau) + [0] * n_spatial
            for j, v in zip(sp_rel, p):
                x[j] = v
            idx = amap.eval(x, [])
            addrs.append(lay.eval(list(idx), [])[0])
        steps.append(addrs)
    return steps


def pointer_offset(v):
    """constant byte offset added to an extracted aligned pointer (0 when the pointer is used as is)"""
    from xdsl.dialects import arith
    o = v.owner
    if isinstance(o, arith.AddiOp):
        for a, b in ((o.lhs, o.rhs), (o.rhs, o.lhs)):
            if isinstance(b.owner, arith.ConstantOp):
                return int(b.owner.value.value.data) + pointer_offset(a)
    return 0


def bytes_of(addrs, w):
    return sorted(a + k for a in addrs for k in range(w))


def l2_alu_case(spec):
    """spec = {"t": temporal bounds, "ops": [{"el","layout","shape","rows","offs"}]}; returns (problems, klass)"""
    from xdsl.pattern_rewriter import PatternRewriter
    from snaxc.accelerators.snax_alu import SNAXAluAccelerator
    from snaxc.transforms.convert_dart_to_snax_stream import ConvertStreamToSnaxStreamPattern
    from snaxc.transforms.dart.dart_layout_resolution import DartLayoutResolutionPass
    bounds = list(spec["t"]) + [4]
    n = len(bounds)
    ops = spec["ops"]
    operands = [(memref_text(o["shape"], o["el"], o["layout"]), affine_text(n, o["rows"], o["offs"])) for o in ops]
    mod = parse(schedule_text("snax_alu", operands, n, bounds), SNAXAluAccelerator())
    sched = [o for o in mod.walk() if o.name == "dart.schedule"][0]
    types = [a.type for a in sched.operands]
    maps = [p.data for p in sched.patterns.data]
    klass = classify_alu(spec, types, maps, bounds)
    DartLayoutResolutionPass().apply(H.xctx(), mod)
    ap = [o for o in mod.walk() if o.name == "dart.access_pattern"][0]
    # the property at the resolution stage: the emitted strides reproduce layout∘schedule − constant on the box
    from snaxc.ir.dart.affine_transform import AffineTransform
    early = []
    for oi, pm in enumerate(ap.patterns.data):
        tr = AffineTransform.from_affine_map(pm.data)
        st = [int(x) for x in tr.A[0]]
        lay = types[oi].get_affine_map_in_bytes()
        f = lambda x: lay.eval(list(maps[oi].eval(list(x), [])), [])[0]   # noqa: E731
        f0 = f([0] * n)
        for x in itertools.product(*[range(b) for b in bounds]):
            if sum(a * b for a, b in zip(st, x)) + int(tr.b[0]) != f(x) - f0:
                early.append({"what": "resolved-strides", "operand": oi, "strides": st, "point": list(x),
                              "want": f(x) - f0, "got": sum(a * b for a, b in zip(st, x)),
                              "klass": "not_linear_on_box" if _F0[oi][1] == "not_linear_on_box" else None})
                break
    if early:
        return early, next((k for k in klass if k), None), None
    with warnings.catch_warnings():
        warnings.simplefilter("ignore")
        try:
            ConvertStreamToSnaxStreamPattern(H.xctx()).match_and_rewrite(ap, PatternRewriter(ap))
        except (StopIteration, AssertionError, ZeroDivisionError, RuntimeError, NotImplementedError) as e:
            return [], next((k for k in klass if k), None), "raised " + type(e).__name__      # loud: nothing is emitted
    sr = [o for o in mod.walk() if o.name == "snax_stream.streaming_region"][0]
    probs = []
    for oi, p in enumerate(sr.stride_patterns.data):
        ub, ts, ss = ([x.data for x in p.upper_bounds], [x.data for x in p.temporal_strides], [x.data for x in p.spatial_strides])
        poff = pointer_offset(sr.operands[oi])
        got = [[a + poff for a in w] for w in nest_words(ub, ts, ss, [4])]
        want = expected_steps(types[oi], maps[oi], bounds, 1, [True] * n, ELS[ops[oi]["el"]])
        gb = [bytes_of(w, 8) for w in got]
        wb = [bytes_of(a, ELS[ops[oi]["el"]]) for a in want]
        flat_g = [b for s in gb for b in s]
        flat_w = [b for s in wb for b in s]
        if len(gb) == len(wb):
            bad = [k for k in range(len(gb)) if gb[k] != wb[k]]
            if bad:
                probs.append({"what": "step-bytes", "operand": oi, "step": bad[0], "pattern": [ub, ts, ss],
                              "streamer": gb[bad[0]][:16], "elements": wb[bad[0]][:16]})
        elif flat_g != flat_w:
            probs.append({"what": "byte-stream", "operand": oi, "pattern": [ub, ts, ss], "streamer_steps": len(gb),
                          "schedule_steps": len(wb), "streamer": flat_g[:16], "elements": flat_w[:16]})
    for p in probs:
        p["klass"] = klass[p["operand"]]
        if p["klass"] == "static_layout_offset":
            # the known finding is the dropped constant only: shifted by it, the streams must agree
            f0, other = _F0[p["operand"]]
            oi = p["operand"]
            pt = sr.stride_patterns.data[oi]
            poff = pointer_offset(sr.operands[oi])
            got = [[a + poff for a in w] for w in nest_words([x.data for x in pt.upper_bounds], [x.data for x in pt.temporal_strides],
                                                             [x.data for x in pt.spatial_strides], [4])]
            want = expected_steps(types[oi], maps[oi], bounds, 1, [True] * n, ELS[ops[oi]["el"]])
            g = [b for w in got for b in bytes_of(w, 8)]
            w_ = [b - f0 for a in want for b in bytes_of(a, ELS[ops[oi]["el"]])]
            if g != w_:
                p["klass"] = other
                p["shifted_by_constant_still_differs"] = True
    return probs, next((k for k in klass if k), None), None


def classify_alu(spec, types, maps, bounds):
    """per operand: the Safe classes of C02 (Coq: linear_on_box, convert_okb; zero constant term), decided on the
    concrete case"""
    n = len(bounds)
    box = list(itertools.product(*[range(b) for b in bounds]))
    out = []
    for oi, o in enumerate(spec["ops"]):
        lay = types[oi].get_affine_map_in_bytes()
        f = lambda x: lay.eval(list(maps[oi].eval(list(x), [])), [])[0]   # noqa: E731
        f0 = f([0] * n)
        c = [f([1 if j == i else 0 for j in range(n)]) - f0 if bounds[i] > 1 else 0 for i in range(n)]
        dims = list(reversed([(c[i], bounds[i]) for i in range(n)]))
        if any(f(x) != f0 + sum(ci * xi for ci, xi in zip(c, x)) for x in box):
            other = "not_linear_on_box"
        elif not convert_okb(ELS[o["el"]], [4], dims):
            other = "not_convert_safe"
        else:
            other = None
        _F0[oi] = (f0, other)
        out.append("static_layout_offset" if f0 != 0 else other)
    return out


_F0 = {}


def gen_l2_alu(rng):
    safe = rng.random() < 0.7     # most cases inside the Safe classes, the rest probes their borders
    t = [rng.choice([2, 2, 3, 4] if safe else [1, 2, 3, 4]) for _ in range(rng.choice([1, 1, 2, 3]))]
    bounds = t + [4]
    n = len(bounds)
    ops = []
    for _ in range(3):
        el = rng.choice(["i64"] * 6 + ["i32"] * 2 + ["i16", "i8"]) if safe else rng.choice(["i64", "i32", "i16", "i8"])
        if el == "i32" and safe:
            bounds_ok = bounds[-2] % 2 == 0
            el = "i32" if bounds_ok else "i64"
        rank = rng.choice([1, 1, 2])
        rows = [[0] * n for _ in range(rank)]
        groups = sorted(rng.randrange(rank) for _ in range(n))       # contiguous groups of dims per index dim
        groups[-1] = rank - 1
        for j, g in enumerate(groups):
            rows[g][j] = 1
        for r in rows:
            cur = 1
            for j in reversed(range(n)):
                if r[j]:
                    r[j] = cur
                    cur *= bounds[j]
        offs = [0 if safe else rng.choice([0, 0, 2]) for _ in range(rank)]
        shape = [sum(a * (b - 1) for a, b in zip(r, bounds)) + o + 1 for r, o in zip(rows, offs)]
        r = rng.random()
        if r < 0.4:
            layout = ("none",)
        elif r < 0.65:
            strides = [_prod(shape[i + 1:]) for i in range(len(shape))]
            if rng.random() < 0.5:      # padded rows
                strides = [s * 2 if i < len(shape) - 1 else s for i, s in enumerate(strides)]
            elif not safe:
                strides = [s * 2 for s in strides]
            layout = ("strided", strides, 0 if safe else rng.choice([0, 5]))
        else:
            layout = gen_layout(rng, shape, el)
            if safe and layout[0] == "tsl":
                # tiles aligned with the schedule: innermost index dim tiled by the spatial bound
                tiles = [[(0, d)] for d in shape]
                if shape[-1] % 4 == 0 and shape[-1] > 4:
                    tiles[-1] = [(0, shape[-1] // 4), (0, 4)]
                pos = [(len(tiles) - 1, len(tiles[-1]) - 1)] + [(i, j) for i, tt in enumerate(tiles) for j in range(len(tt))
                                                               if (i, j) != (len(tiles) - 1, len(tiles[-1]) - 1)]
                rest = pos[1:]
                rng.shuffle(rest)
                cur = 1
                for (i, j) in [pos[0]] + rest:
                    tiles[i][j] = (cur, tiles[i][j][1])
                    cur *= tiles[i][j][1]
                layout = ("tsl", tiles)
            elif safe and layout[0] == "strided":
                layout = ("none",)
        ops.append({"rows": rows, "offs": offs, "shape": shape, "el": el, "layout": layout})
    return {"t": t, "ops": ops}


def l2_gemmx_case(rng_case):
    """default gemmx, i8 x i8 -> i32 matmul on tile-contiguous layouts: A, B, D32 streams + inserted patterns"""
    from xdsl.pattern_rewriter import PatternRewriter
    from snaxc.accelerators.snax_gemmx import SNAXGEMMXAccelerator
    from snaxc.transforms.convert_dart_to_snax_stream import ConvertStreamToSnaxStreamPattern
    from snaxc.transforms.dart.dart_layout_resolution import DartLayoutResolutionPass
    M, N, K = rng_case["mnk"]
    tiled = rng_case["tiled"]

    def lay(rows, cols, el, transposed=False):
        if tiled:
            a, b = (1, 8) if transposed else (8, 1)
            return ("tsl", [[(64 * (cols if not transposed else 1), rows), (a, 8)], [(64 * (1 if not transposed else rows), cols), (b, 8)]])
        return ("none",)
    shapes = [[8 * M, 8 * K], [8 * K, 8 * N], [8 * M, 8 * N]]
    layouts = [lay(M, K, "i8"), lay(K, N, "i8", True), lay(M, N, "i32")]
    if not tiled:
        return [], None, "untiled"
    els = ["i8", "i8", "i32"]
    rows = [[[8, 0, 0, 1, 0, 0], [0, 0, 8, 0, 0, 1]], [[0, 0, 8, 0, 0, 1], [0, 8, 0, 0, 1, 0]], [[8, 0, 0, 1, 0, 0], [0, 8, 0, 0, 1, 0]]]
    bounds = [M, N, K, 8, 8, 8]
    operands = [(memref_text(shapes[i], els[i], layouts[i]), affine_text(6, rows[i], [0, 0])) for i in range(3)]
    acc = SNAXGEMMXAccelerator()
    mod = parse(schedule_text("snax_gemmx", operands, 6, bounds, body=gemmx_conv_body("mm_i32")), acc)
    sched = [o for o in mod.walk() if o.name == "dart.schedule"][0]
    types = [a.type for a in sched.operands]
    maps = [p.data for p in sched.patterns.data]
    DartLayoutResolutionPass().apply(H.xctx(), mod)
    ap = [o for o in mod.walk() if o.name == "dart.access_pattern"][0]
    with warnings.catch_warnings():
        warnings.simplefilter("ignore")
        ConvertStreamToSnaxStreamPattern(H.xctx()).match_and_rewrite(ap, PatternRewriter(ap))
    sr = [o for o in mod.walk() if o.name == "snax_stream.streaming_region"][0]
    pats = [([x.data for x in p.upper_bounds], [x.data for x in p.temporal_strides], [x.data for x in p.spatial_strides])
            for p in sr.stride_patterns.data]
    probs = []
    if len(pats) != 5:
        return [{"what": "pattern-count", "got": len(pats)}], None, None
    if any(b != 0 for b in pats[2][0]):
        probs.append({"what": "D8-not-disabled", "pattern": pats[2]})
    if pats[3] != pats[4]:
        probs.append({"what": "C-not-duplicate-of-D32", "C": pats[3], "D32": pats[4]})
    rel = ACCS["mm_i32"]["rel"]
    spats = [[8], [8], [8, 4]]
    for oi, pi in ((0, 0), (1, 1), (2, 4)):
        ub, ts, ss = pats[pi]
        got = nest_words(ub, ts, ss, spats[oi])
        want = expected_steps(types[oi], maps[oi], bounds, 3, [True] * 3 + rel[oi], ELS[els[oi]])
        flat_g = [b for w in got for b in bytes_of(w, 8)]
        flat_w = [b for a in want for b in bytes_of(a, ELS[els[oi]])]
        # an operand that does not depend on a temporal dim is re-read: compare the set of bytes per step
        # after aligning step counts through the streamer's own bounds
        if sorted(set(flat_g)) != sorted(set(flat_w)) or len(got) != len(want) or \
                any(bytes_of(g, 8) != bytes_of(w, ELS[els[oi]]) for g, w in zip(_reorder(got, ub, bounds), want)):
            probs.append({"what": "step-bytes", "operand": oi, "pattern": pats[pi], "streamer": flat_g[:16], "elements": flat_w[:16]})
    return probs, None, None


KNOWN_XADD = "xdma_add_second_operand_assumed"


def l2_xdma_add_case(c):
    """xDMA add extension on row-major i32 operands: out[t, 0:16] = a[t, 0:16] + b[t, 0:16].
    The reader must stream a's and b's elements of every step; the code streams a's step and `a + 512 bytes`."""
    from xdsl.pattern_rewriter import PatternRewriter
    from snaxc.accelerators.snax_xdma import SNAXXDMAAccelerator
    from snaxc.transforms.convert_dart_to_snax_stream import ConvertStreamToSnaxStreamPattern
    from snaxc.transforms.dart.dart_layout_resolution import DartLayoutResolutionPass
    t = list(c["t"])
    bounds = t + [16]
    n = len(bounds)
    rows = [0] * n
    cur = 1
    for j in reversed(range(n)):
        rows[j] = cur
        cur *= bounds[j]
    shape = [cur]
    operands = [(memref_text(shape, "i32", ("none",)), affine_text(n, [rows], [0])) for _ in range(3)]
    acc = SNAXXDMAAccelerator()
    mod = parse(schedule_text("snax_xdma", operands, n, bounds, body=xdma_conv_body("xadd")), acc)
    sched = [o for o in mod.walk() if o.name == "dart.schedule"][0]
    types = [a.type for a in sched.operands]
    maps = [p.data for p in sched.patterns.data]
    args = list(sched.operands)
    DartLayoutResolutionPass().apply(xdma_ctx(), mod)
    ap = [o for o in mod.walk() if o.name == "dart.access_pattern"][0]
    with warnings.catch_warnings():
        warnings.simplefilter("ignore")
        ConvertStreamToSnaxStreamPattern(xdma_ctx()).match_and_rewrite(ap, PatternRewriter(ap))
    sr = [o for o in mod.walk() if o.name == "snax_stream.streaming_region"][0]
    pats = [([x.data for x in p.upper_bounds], [x.data for x in p.temporal_strides], [x.data for x in p.spatial_strides])
            for p in sr.stride_patterns.data]

    def src_of(v):       # which function argument a streamer pointer was extracted from
        o = v.owner
        return args.index(o.operands[0]) if hasattr(o, "operands") and len(o.operands) == 1 and o.operands[0] in args else None
    srcs = [src_of(v) for v in sr.operands]
    want = [[bytes_of(a, 4) for a in expected_steps(types[k], maps[k], bounds, 1, [True] * n, 4)] for k in range(3)]
    probs = []
    # the writer: operand 2 from its own pointer
    if srcs[-1] != 2 or [bytes_of(w, 8) for w in nest_words(*pats[-1], [8])] != want[2]:
        probs.append({"what": "xdma-add-writer-stream", "pattern": pats[-1], "source": srcs[-1], "klass": None})
    readers = list(zip(srcs[:-1], pats[:-1]))
    got = {}
    for k, p in readers:
        got.setdefault(k, []).extend(bytes_of(w, 8) for w in nest_words(*p, [8]))
    if set(got) == {0, 1} and got[0] == want[0] and got[1] == want[1]:
        return probs, None, None                      # both addends streamed from their own buffers
    # known class: one reader on operand 0, per step [a's step, the same 512 bytes further]; operand 1 never read
    inter = [s for a in want[0] for s in (a, [b + 512 for b in a])]
    if srcs[:-1] == [0] and got.get(0) == inter:
        probs.append({"what": "xdma-add-second-operand-not-streamed", "pattern": pats[0], "sources": srcs, "klass": KNOWN_XADD,
                      "note": "operand 1's pointer is unused; the reader fetches operand 0's step and operand 0 + 512 bytes"})
    else:
        probs.append({"what": "xdma-add-reader-stream", "patterns": pats[:-1], "sources": srcs, "klass": None,
                      "streamer": [s[:8] for s in got.get(0, [])[:4]], "operand0_steps": [s[:8] for s in want[0][:2]]})
    return probs, None, None


def _reorder(steps, ub, bounds):
    """streamer steps are issued innermost-temporal first (k, n, m); the schedule enumerates m, n, k
    lexicographically with k fastest as well: same order when the streamer keeps all three temporal dims."""
    return steps


def search(ctx, deep=False):
    rng = ctx.rng
    fails = []
    for i in range(ctx.n(150, 800) * (3 if deep else 1)):
        spec = gen_l2_alu(rng)
        try:
            probs, klass, note = l2_alu_case(spec)
        except Exception as e:   # noqa: BLE001
            probs, klass, note = [{"what": "harness-raised", "error": repr(e)[:300]}], None, None
        ctx.count({"L2": "alu", "case": spec, "class": klass, "note": note}, len(spec["t"]) >= 1, f"l2{spec}",
                  "L2-alu" + (":" + klass if klass else "") + (":loud" if note else ""))
        for p in probs:
            fails.append({"what": p["what"], "acc": "snax_alu", "case": spec, "detail": p, "klass": p.get("klass", klass)})
    for i in range(ctx.n(6, 40)):
        c = {"mnk": [rng.choice([1, 2, 3]), rng.choice([1, 2]), rng.choice([1, 2, 3])], "tiled": True}
        try:
            probs, klass, note = l2_gemmx_case(c)
        except Exception as e:   # noqa: BLE001
            probs, klass = [{"what": "harness-raised", "error": repr(e)[:300]}], None
        ctx.count({"L2": "gemmx", "case": c}, True, f"l2g{c}", "L2-gemmx")
        for p in probs:
            fails.append({"what": p["what"], "acc": "snax_gemmx", "case": c, "detail": p, "klass": klass})
    for i in range(ctx.n(6, 40)):
        c = {"t": [rng.choice([1, 2, 3, 4]) for _ in range(rng.choice([1, 1, 2, 3]))]}
        try:
            probs, klass, note = l2_xdma_add_case(c)
        except Exception as e:   # noqa: BLE001
            probs = [{"what": "harness-raised", "error": repr(e)[:300]}]
        ctx.count({"L2": "xdma-add", "case": c}, True, f"l2x{c}", "L2-xdma-add")
        for p in probs:
            fails.append({"what": p["what"], "acc": "snax_xdma", "case": c, "detail": p, "klass": p.get("klass")})
    seen, out = set(), []
    for f in fails:
        k = (f["what"], f["acc"], f["klass"])
        if k not in seen:
            seen.add(k)
            out.append(f)
    return out


def _rerun(f):
    if f.get("acc") == "snax_gemmx":
        return l2_gemmx_case(f["case"])
    if f.get("acc") == "snax_xdma":
        return l2_xdma_add_case(f["case"])
    c = f["case"]
    spec = {"t": list(c["t"]), "ops": [dict(o, layout=_tup(o["layout"])) for o in c["ops"]]}
    return l2_alu_case(spec)


def _tup(l):
    if l[0] == "tsl":
        return ("tsl", [[tuple(x) for x in t] for t in l[1]])
    return tuple(l)


def replay_known(ctx, entry):
    probs, klass, _ = _rerun(entry["witness"])
    return any(p.get("klass") == entry["class"] for p in probs)


def replay(ctx, obj):
    f = obj.get("failure")
    if not f:
        print("no failing input recorded; broken obligations:", obj.get("no_longer_checks"))
        return 1
    print("case:", f["case"])
    probs, klass, note = _rerun(f)
    for p in probs:
        print("FAIL", p, "class:", klass)
    return 1 if probs else 0
