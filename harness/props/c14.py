"""C14 — dispatch runs each operation on exactly the cores it belongs to.

(H) hand model coq/Model/C14Dispatch.v of snaxc/transforms/dispatch_regions.py.
L1: the real `dispatch-regions{nb_cores=N}` output, converted structurally (which op under which
    core guard, header ops, pin list), must equal `dispatch N before` computed in Coq; and the
    repo's dispatching rules must classify every op like the property's specification.
L2: per-core traces (Coq semantics, sampled trip counts / branch outcomes / CFG paths) of the real
    output versus the filtered trace of the real input, for every core id — no model of the pass.
"""
from __future__ import annotations

import vlib
from vlib import boollit, coqlist, zlit
from props import mc_ir

PROPERTY = "C14"
MODEL_TARGETS = ["Model/C14Dispatch.vo"]
RULE = ("functions of 1-3 blocks (cf.br / cf.cond_br), bodies of 1-7 items nested to depth 3 in scf.for / scf.if "
        "(with and without else); items: memref.copy, linalg.generic, xDMA streaming region with an extension "
        "kernel (DM, has a body), snax_alu streaming region, xDMA regions with a non-extension kernel or with an extension kernel class on undeclared operand types "
        "(compute), constants / barriers / calls (all cores); nb_cores in 2..4. Non-trivial = at least one "
        "dispatchable op; distinct = distinct (structure, nb_cores)")
TRUSTED_BASE = [
    "Coq 8.16.1 kernel + vm_compute (no native_compute)",
    "hand model coq/Model/C14Dispatch.v of DispatchRegionsRewriter (walk order, grouping, flush rule, two passes, header), tied by L1",
    "harness/props/c14.py + mc_ir.py: xDSL-IR -> abstract-program converter (structural), generators, spec classifier of ops; xdsl_compat shim; xDSL 0.70 parser/rewriter/verifier",
]
ASSUMPTIONS = [
    "control flow (trip counts, scf.if conditions, CFG path) is the same on every core and before/after the pass (oracle keyed by op and iteration context)",
    "an op is executed as a unit; ops nested in a dispatchable op's region are not themselves dispatchable",
    "function-constant-pinning (xDSL, not in the repo) is modelled by `pin`: one copy per listed constant with the guards folded",
]


SH1 = 40  # cases per Coq file (L1)
SH2 = 30  # (L2)


class Unsupported(Exception):
    pass


# ------------------------------------------------------------------ generator
class Gen:
    def __init__(self, rng):
        self.rng = rng
        self.uid = 0
        self.ndisp = 0

    def fresh(self):
        self.uid += 1
        return self.uid

    def mem(self):
        return self.rng.choice(["%a", "%b", "%c", "%d"])

    def item(self, depth, weights=None):
        r = self.rng
        kinds = ["copy", "copy", "generic", "generic", "sr_dm", "sr_alu", "sr_xmul", "sr_x64", "const", "sync", "call", "for", "if", "ifelse"]
        k = r.choice(kinds)
        if depth >= 3 and k in ("for", "if", "ifelse"):
            k = r.choice(["copy", "generic", "const"])
        u = self.fresh()
        if k == "copy":
            self.ndisp += 1
            return [mc_ir.t_copy(self.mem(), self.mem())]
        if k == "generic":
            self.ndisp += 1
            return mc_ir.t_generic([self.mem()], [self.mem()], u).split("\n")
        if k == "sr_dm":
            self.ndisp += 1
            return mc_ir.t_stream("snax_xdma", "add", self.mem(), self.mem(), self.mem(), u).split("\n")
        if k == "sr_alu":
            self.ndisp += 1
            return mc_ir.t_stream("snax_alu", "add", self.mem(), self.mem(), self.mem(), u).split("\n")
        if k == "sr_xmul":
            self.ndisp += 1
            return mc_ir.t_stream("snax_xdma", "mul", self.mem(), self.mem(), self.mem(), u).split("\n")
        if k == "sr_x64":
            # the op class of an xDMA extension kernel (kernel.add) on operand types no extension declares:
            # not data movement by the rules' own exact test, hence accelerator/compute work
            self.ndisp += 1
            return mc_ir.t_stream("snax_xdma", "add", "%e", "%f", "%e", u, el="i64").split("\n")
        if k == "const":
            return [f"%k{u} = arith.constant {r.randrange(100)} : index"]
        if k == "sync":
            return ['"snax.cluster_sync_op"() : () -> ()']
        if k == "call":
            return ["func.call @ext() : () -> ()"]
        if k == "for":
            body = self.block(depth + 1, allow_empty=True)
            return [f"scf.for %i{u} = %c0 to %n step %c1 {{"] + ["  " + x for x in body] + ["}"]
        if k == "if":
            body = self.block(depth + 1, allow_empty=True)
            return ["scf.if %cond {"] + ["  " + x for x in body] + ["}"]
        body = self.block(depth + 1, allow_empty=True)
        body2 = self.block(depth + 1, allow_empty=True)
        return ["scf.if %cond {"] + ["  " + x for x in body] + ["} else {"] + ["  " + x for x in body2] + ["}"]

    def block(self, depth, allow_empty=False):
        r = self.rng
        n = r.choice([0, 1, 1, 2, 2, 3, 4]) if allow_empty else r.choice([1, 2, 3, 4, 5, 7])
        out = []
        for _ in range(n):
            out += self.item(depth)
        return out

    def func(self):
        r = self.rng
        nblocks = r.choice([1, 1, 1, 2, 3])
        lines = ["func.func private @ext() -> ()",
                 "func.func @f(%a : memref<64xi32>, %b : memref<64xi32>, %c : memref<64xi32>, %d : memref<64xi32>, %n : index, %cond : i1, %e : memref<64xi64>, %f : memref<64xi64>) {",
                 "  %c0 = arith.constant 0 : index", "  %c1 = arith.constant 1 : index"]
        for bi in range(nblocks):
            if bi > 0:
                lines.append(f"^bb{bi}:")
            lines += ["  " + x for x in self.block(1, allow_empty=(bi > 0))]
            if bi == nblocks - 1:
                lines.append("  func.return")
            elif bi == nblocks - 2 or r.random() < 0.6:
                lines.append(f"  cf.br ^bb{bi + 1}")
            else:
                lines.append(f"  cf.cond_br %cond, ^bb{bi + 1}, ^bb{bi + 2}")
        lines.append("}")
        return "\n".join(lines)


def gen_case(rng):
    g = Gen(rng)
    text = g.func()
    nb = rng.choice([2, 2, 3, 4])
    return text, nb, g.ndisp


# ------------------------------------------------------------------ converter xDSL -> abstract
CONTROL_TERMS = ("scf.yield",)


def _is_core_call(op):
    return op.name == "func.call" and op.callee.string_value() == "snax_cluster_core_idx"


def _cmp_const(v):
    """if v is `arith.cmpi eq (core_idx call), (arith.constant K)` return K else None"""
    from xdsl.ir import OpResult
    if not isinstance(v, OpResult) or v.op.name != "arith.cmpi":
        return None
    cmp = v.op
    if cmp.predicate.value.data != 0:  # eq
        return None
    l, r = cmp.lhs, cmp.rhs
    if isinstance(l, OpResult) and _is_core_call(l.op) and isinstance(r, OpResult) and r.op.name == "arith.constant":
        return r.op.value.value.data
    return None


def _is_header(op):
    from xdsl.ir import OpResult
    if _is_core_call(op):
        return True
    if op.name == "arith.cmpi" and _cmp_const(op.results[0]) is not None:
        return True
    if op.name == "arith.constant":
        uses = list(op.results[0].uses)
        if uses and all(u.operation.name == "arith.cmpi" and _cmp_const(u.operation.results[0]) is not None for u in uses):
            return True
    return False


def conv_block(block, ids, kindf, fresh_ok):
    out = []
    for op in block.ops:
        if op.name in CONTROL_TERMS:
            continue
        if _is_header(op):
            continue
        out.append(conv_op(op, ids, kindf, fresh_ok))
    return out


def _id(op, ids, fresh_ok):
    k = id(op)
    if k not in ids:
        if not fresh_ok:
            raise Unsupported(f"op {op.name} not present before the pass")
        ids[k] = len(ids) + 1
    return ids[k]


def conv_op(op, ids, kindf, fresh_ok):
    if op.name == "scf.for":
        return ("For", _id(op, ids, fresh_ok), conv_block(op.body.block, ids, kindf, fresh_ok))
    if op.name == "scf.if":
        k = _cmp_const(op.cond)
        th = conv_block(op.true_region.block, ids, kindf, fresh_ok)
        el = conv_block(op.false_region.block, ids, kindf, fresh_ok) if op.false_region.blocks else []
        if k is not None:
            if el:
                raise Unsupported("core guard with else branch")
            return ("Guard", int(k), th)
        return ("If", _id(op, ids, fresh_ok), th, el)
    kind = kindf(op)
    # ops nested in the regions of a leaf must not be dispatchable themselves
    for r in op.regions:
        for b in r.blocks:
            for inner in b.walk():
                if kindf(inner) != "KOther" or inner.name in ("scf.for", "scf.if"):
                    raise Unsupported(f"dispatchable/control op nested in {op.name}")
    return ("Leaf", _id(op, ids, fresh_ok), kind, mc_ir.has_inner_ops(op))


def conv_func(fop, ids, kindf, fresh_ok, nb=None, strict=True):
    """strict (L1): the header may only compare the core id with 0 and nb-1.  L2 passes strict=False: a guard on any
    other constant is still a Guard node of the abstract program, and the per-core traces show what it does."""
    blocks = [conv_block(b, ids, kindf, fresh_ok) for b in fop.body.blocks]
    call = dmc = cc = False
    pins = []
    consts = []
    for op in fop.body.blocks[0].ops:
        if _is_core_call(op):
            call = True
            p = op.attributes.get("pin_to_constants")
            pins = [a.value.data for a in p.data] if p is not None else []
        elif op.name == "arith.cmpi" and _cmp_const(op.results[0]) is not None:
            consts.append(_cmp_const(op.results[0]))
    for k in consts:
        if k == 0:
            cc = True
        elif nb is not None and k == nb - 1:
            dmc = True
        elif strict:
            raise Unsupported(f"core comparison with unexpected constant {k}")
    return {"call": call, "dm": dmc, "comp": cc, "pins": pins, "blocks": blocks}


def coq_stmt(s):
    if s[0] == "Leaf":
        return f"Leaf {zlit(s[1])} {s[2]} {boollit(s[3])}"
    if s[0] == "For":
        return f"For {zlit(s[1])} {coq_block(s[2])}"
    if s[0] == "If":
        return f"If {zlit(s[1])} {coq_block(s[2])} {coq_block(s[3])}"
    return f"Guard {zlit(s[1])} {coq_block(s[2])}"


def coq_block(b):
    return coqlist(coq_stmt(s) for s in b)


def coq_func(blocks):
    return coqlist(coq_block(b) for b in blocks)


def coq_dispatched(d):
    return (f"(mkDispatched {boollit(d['call'])} {boollit(d['dm'])} {boollit(d['comp'])} "
            f"{vlib.zlist(d['pins'])} {coq_func(d['blocks'])})")


def find_func(mod, name="f"):
    for op in mod.walk():
        if op.name == "func.func" and op.sym_name.data == name:
            return op
    raise Unsupported("no function")


def run_real(text, nb, kindf, strict=True):
    """parse, convert before, run the real pass, convert after. Returns (before_blocks, after_dict, module)."""
    from snaxc.transforms.dispatch_regions import DispatchRegions
    mod = mc_ir.parse(text)
    fop = find_func(mod)
    ids = {}
    before = conv_func(fop, ids, kindf, True)
    DispatchRegions(nb_cores=nb).apply(mc_ir.xctx(), mod)
    mod.verify()
    after = conv_func(find_func(mod), ids, kindf, False, nb, strict)
    return before, after, mod


# ---------------------------------------------------------------- pin: the real function-constant-pinning
def _const_i32(v):
    from xdsl.ir import OpResult
    if isinstance(v, OpResult) and v.op.name == "arith.constant" and str(v.type) == "i32":
        return v.op.value.value.data
    return None


def conv_pinned_block(block, kindf, ret_id=None):
    """abstract statements of a pinned function body with the constant comparisons folded; ids come from the
    `vid` attribute put on the ops before the passes (the pinning pass clones the function)"""
    out = []
    for op in block.ops:
        n = op.name
        if n in CONTROL_TERMS:
            continue
        if n == "arith.constant" and str(op.results[0].type) == "i32":
            continue
        if n == "arith.cmpi" and _const_i32(op.lhs) is not None and _const_i32(op.rhs) is not None:
            continue
        if n == "scf.if":
            from xdsl.ir import OpResult
            c = op.cond
            if isinstance(c, OpResult) and c.op.name == "arith.cmpi" and _const_i32(c.op.lhs) is not None and _const_i32(c.op.rhs) is not None:
                if c.op.predicate.value.data != 0:
                    raise Unsupported("pinned comparison is not eq")
                if _const_i32(c.op.lhs) == _const_i32(c.op.rhs):
                    out += conv_pinned_block(op.true_region.block, kindf, ret_id)
                elif op.false_region.blocks:
                    out += conv_pinned_block(op.false_region.block, kindf, ret_id)
                continue
            vid = op.attributes["vid"].value.data
            th = conv_pinned_block(op.true_region.block, kindf, ret_id)
            el = conv_pinned_block(op.false_region.block, kindf, ret_id) if op.false_region.blocks else []
            out.append(("If", vid, th, el))
            continue
        if n == "func.call" and op.callee.string_value().startswith("f_pinned"):
            raise Unsupported("a pinned function reaches another specialisation")
        if n == "scf.for":
            out.append(("For", op.attributes["vid"].value.data, conv_pinned_block(op.body.block, kindf, ret_id)))
            continue
        if n == "func.return" and "vid" not in op.attributes and ret_id is not None:
            out.append(("Leaf", ret_id, kindf(op), False))  # the pinning pass gives each specialisation a new terminator
            continue
        if "vid" not in op.attributes:
            raise Unsupported(f"op {n} in a pinned function has no original")
        out.append(("Leaf", op.attributes["vid"].value.data, kindf(op), mc_ir.has_inner_ops(op)))
    return out


def run_pin(text, nb, kindf):
    """single-block function: dispatch-regions, then xDSL's function-constant-pinning.  Returns
    (after_blocks, {constant: folded body of the function pinned to it}, dispatcher map core id -> constant)"""
    from xdsl.dialects.builtin import IntegerAttr, i64
    from xdsl.transforms.experimental.function_constant_pinning import FunctionConstantPinningPass
    from snaxc.transforms.dispatch_regions import DispatchRegions
    mod = mc_ir.parse(text)
    fop = find_func(mod)
    ids = {}
    conv_func(fop, ids, kindf, True)
    ret_id = None
    for op in fop.walk():
        if id(op) in ids and op is not fop:
            op.attributes["vid"] = IntegerAttr(ids[id(op)], i64)
            if op.name == "func.return":
                ret_id = ids[id(op)]
    DispatchRegions(nb_cores=nb).apply(mc_ir.xctx(), mod)
    after = conv_func(find_func(mod), ids, kindf, False, nb)
    FunctionConstantPinningPass().apply(mc_ir.xctx(), mod)
    mod.verify()
    pinned = {}
    names = {}
    for f in mod.walk():
        if f.name == "func.func" and f.sym_name.data.startswith("f_pinned"):
            first = [o for o in f.body.blocks[0].ops if o.name == "arith.constant" and str(o.results[0].type) == "i32"]
            if not first:
                raise Unsupported("pinned function without constant")
            c = first[0].value.value.data
            pinned[c] = conv_pinned_block(f.body.blocks[0], kindf, ret_id)
            names[f.sym_name.data] = c
    # the dispatcher left in @f: if (core_idx == k) call @f_pinned_x
    disp = {}
    for op in find_func(mod).walk():
        if op.name == "scf.if" and _cmp_const(op.cond) is not None:
            calls = [o for o in op.true_region.block.ops if o.name == "func.call" and o.callee.string_value() in names]
            if calls:
                disp[int(_cmp_const(op.cond))] = names[calls[0].callee.string_value()]
    return after, pinned, disp


def count_kinds(blocks, acc=None):
    acc = acc if acc is not None else {}
    for b in blocks:
        for s in b:
            _ck(s, acc)
    return acc


def _ck(s, acc):
    if s[0] == "Leaf":
        acc[s[2]] = acc.get(s[2], 0) + 1
    elif s[0] == "If":
        for x in s[2] + s[3]:
            _ck(x, acc)
    else:
        for x in s[2]:
            _ck(x, acc)


# ------------------------------------------------------------------ L1
HEADER = "From Snax Require Import Base.Prelude Model.C14Dispatch.\n"


def correspondence(ctx):
    rng = ctx.rng
    n = ctx.n(200, 1200)
    dis = []
    cases, meta = [], []
    for i in range(n):
        text, nb, ndisp = gen_case(rng)
        # (a) the repo's rules classify like the specification
        mod0 = mc_ir.parse(text)
        for op in find_func(mod0).walk():
            rk, sk = mc_ir.rule_kind(op), mc_ir.spec_kind(op)
            if rk != sk:
                dis.append({"name": "L1:rules", "op": op.name, "rules": rk, "spec": sk, "text": text, "nb": nb})
                break
        # (b) structure of the real output = model output
        try:
            before, after, _ = run_real(text, nb, mc_ir.rule_kind)
        except Unsupported as e:
            dis.append({"name": "L1:convert", "detail": str(e), "text": text, "nb": nb})
            continue
        except Exception as e:
            dis.append({"name": "L1:pass-crash", "detail": repr(e)[:300], "text": text, "nb": nb})
            continue
        cases.append(f"({zlit(nb)}, {coq_func(before['blocks'])}, {coq_dispatched(after)})")
        meta.append({"text": text, "nb": nb})
        ctx.count({"nb": nb, "blocks": len(before["blocks"]), "kinds": count_kinds(before["blocks"])}, ndisp > 0,
                  f"{before['blocks']}{nb}", f"nb={nb}")
    # (c) pinning: the real function-constant-pinning of the dispatched (single-block) function vs `pin`
    pin_cases, pin_meta = [], []
    for i in range(ctx.n(40, 250)):
        text, nb, ndisp = gen_case(rng)
        if "^bb1:" in text or ndisp == 0:
            continue
        try:
            after, pinned, disp = run_pin(text, nb, mc_ir.rule_kind)
        except Unsupported as e:
            dis.append({"name": "L1:pin-convert", "detail": str(e), "text": text, "nb": nb})
            continue
        except Exception as e:
            dis.append({"name": "L1:pin-crash", "detail": repr(e)[:300], "text": text, "nb": nb})
            continue
        if sorted(pinned) != list(range(nb)) or any(disp.get(k) != k for k in disp) or not set(disp) <= set(range(nb)):
            dis.append({"name": "L1:pin-constants", "pinned": sorted(pinned), "dispatcher": disp, "text": text, "nb": nb})
            continue
        for c in range(nb):
            pin_cases.append(f"({zlit(c)}, {coq_block(after['blocks'][0])}, {coq_block(pinned[c])})")
            pin_meta.append({"text": text, "nb": nb, "core": c})
            ctx.count({"pin": c, "nb": nb}, True, f"pin{text}{nb}{c}", "pin")
    pshards = [pin_cases[i:i + 3 * SH1] for i in range(0, len(pin_cases), 3 * SH1)]
    ptexts = [HEADER + f"Definition cs : list (Z * list stmt * list stmt) := {coqlist(sh)}.\n"
              "Eval vm_compute in failing (fun c => match c with (k, a, b) => list_eqb stmt_eqb (pinl k a) b end) cs.\n" for sh in pshards]
    for si, (ok, out) in enumerate(vlib.coq_eval_many("c14pin_", ptexts, timeout=600)):
        lists = vlib.parse_all_eval_lists(out)
        if not ok or len(lists) != 1:
            dis.append({"name": "L1:pin-cases-file", "detail": out[-1500:]})
            continue
        for idx in lists[0]:
            dis.append({"name": "L1:pin-structure", **pin_meta[si * 3 * SH1 + idx]})
    shards = [cases[i:i + SH1] for i in range(0, len(cases), SH1)]
    texts = [HEADER + f"Definition cs : list (Z * func * dispatched) := {coqlist(sh)}.\n"
             "Eval vm_compute in failing (fun c => match c with (nb, f, d) => "
             "dispatched_eqb (norm_dispatched (dispatch nb f)) (norm_dispatched d) end) cs.\n"
             "Eval vm_compute in failing (fun c => match c with (nb, f, d) => dispatched_eqb (dispatch nb f) d end) cs.\n"
             for sh in shards]
    res = vlib.coq_eval_many("c14l1_", texts, timeout=600)
    exact_diff = 0
    for si, (ok, out) in enumerate(res):
        lists = vlib.parse_all_eval_lists(out)
        if not ok or len(lists) != 2:
            dis.append({"name": "L1:cases-file", "detail": out[-1500:]})
            continue
        for idx in lists[0]:
            dis.append({"name": "L1:dispatch-structure", **meta[si * SH1 + idx]})
        exact_diff += len([i for i in lists[1] if i not in lists[0]])
    ctx.extra["L1_grouping_only_differences"] = exact_diff
    if exact_diff:
        ctx.notes.append(f"{exact_diff} cases where the real pass groups neighbouring ops under guards differently from the "
                         "model (same ops under the same core guards in the same order: not a disagreement)")
    return dis


# ------------------------------------------------------------------ L2
ORACLE = ("Definition orc (s : Z) : oracle := mkOracle "
          "(fun id ctx => Z.to_nat ((id * 7 + s + Z.of_nat (length ctx) * 3 + Z.of_nat (list_sum ctx)) mod 4)) "
          "(fun id ctx => Z.even ((id * 5 + s + Z.of_nat (list_sum ctx)) / 2)).\n")
PATHS = ["[0%nat]", "[0%nat; 1%nat; 2%nat]", "[0%nat; 2%nat; 1%nat; 1%nat]"]


def _l2_expr(nb):
    cores = "zrange nb"
    return ("(fun c => match c with (nb, bf, af) => forallb (fun s => forallb (fun p => forallb (fun k => "
            "projection_ok nb (orc s) bf af p k) (zrange nb)) [" + "; ".join(PATHS) + "]) [0; 1; 2; 5] end)")


def search_cases(ctx, items):
    """items: list of (text, nb). Returns failures."""
    fails = []
    cases, meta = [], []
    for text, nb in items:
        try:
            before, after, mod = run_real(text, nb, mc_ir.spec_kind, strict=False)
        except Unsupported as e:
            fails.append({"what": "convert", "detail": str(e), "text": text, "nb": nb, "klass": None})
            continue
        except Exception as e:
            fails.append({"what": "pass-crash-or-invalid-ir", "detail": repr(e)[:300], "text": text, "nb": nb, "klass": None})
            continue
        if after["call"] and sorted(after["pins"]) != list(range(nb)):
            fails.append({"what": "pin_to_constants does not list every core id", "pins": after["pins"], "text": text, "nb": nb, "klass": None})
        cases.append(f"({zlit(nb)}, {coq_func(before['blocks'])}, {coq_func(after['blocks'])})")
        meta.append({"text": text, "nb": nb})
    shards = [cases[i:i + SH2] for i in range(0, len(cases), SH2)]
    texts = [HEADER + ORACLE + f"Definition cs : list (Z * func * func) := {coqlist(sh)}.\n"
             f"Eval vm_compute in failing {_l2_expr(0)} cs.\n" for sh in shards]
    res = vlib.coq_eval_many("c14l2_", texts, timeout=600)
    for si, (ok, out) in enumerate(res):
        lists = vlib.parse_all_eval_lists(out)
        if not ok or len(lists) != 1:
            fails.append({"what": "L2 cases file", "detail": out[-1500:], "klass": None})
            continue
        for idx in lists[0]:
            fails.append({"what": "some core's trace differs from the filtered original trace", **meta[si * SH2 + idx], "klass": None})
    return fails


CORPUS = [
    # two blocks, a copy in each (short-circuiting `any` left the second unguarded)
    ("""func.func @f(%a : memref<64xi32>, %b : memref<64xi32>, %c : memref<64xi32>, %d : memref<64xi32>, %n : index, %cond : i1) {
  "memref.copy"(%a, %b) : (memref<64xi32>, memref<64xi32>) -> ()
  cf.br ^bb1
^bb1:
  "memref.copy"(%b, %a) : (memref<64xi32>, memref<64xi32>) -> ()
  func.return
}""", 2),
]


def search(ctx, deep=False):
    rng = ctx.rng
    n = ctx.n(120, 800) * (3 if deep else 1)
    items = list(CORPUS)
    items.append(("func.func @f(%a : memref<64xi32>, %b : memref<64xi32>, %c : memref<64xi32>, %d : memref<64xi32>, %n : index, %cond : i1, %e : memref<64xi64>, %f : memref<64xi64>) {\n"
                  + mc_ir.t_stream("snax_xdma", "add", "%e", "%f", "%e", 1, el="i64") + "\n  func.return\n}", 2))
    # xDMA region with a kernel no extension provides (was: ran on all cores)
    items.append(("func.func @f(%a : memref<64xi32>, %b : memref<64xi32>, %c : memref<64xi32>, %d : memref<64xi32>, %n : index, %cond : i1) {\n"
                  + mc_ir.t_stream("snax_xdma", "mul", "%a", "%b", "%c", 1) + "\n  func.return\n}", 3))
    for _ in range(n):
        text, nb, ndisp = gen_case(rng)
        items.append((text, nb))
        ctx.count({"L2": "program", "nb": nb, "ndisp": ndisp}, ndisp > 0, text + str(nb), "L2")
    fails = search_cases(ctx, items)
    # keep the smallest failing program first
    fails.sort(key=lambda f: len(f.get("text", "")) if f.get("text") else 10 ** 9)
    return fails[:5]


def replay_known(ctx, entry):
    return False


def replay(ctx, obj):
    f = obj.get("failure")
    if not f or "text" not in f:
        print("no failing input recorded; broken obligations:", obj.get("no_longer_checks"))
        return 1
    text, nb = f["text"], f["nb"]
    print(text)
    print("nb_cores =", nb)
    try:
        before, after, mod = run_real(text, nb, mc_ir.spec_kind, strict=False)
        print("---- real output\n" + str(mod))
    except Exception as e:
        print("FAIL", repr(e))
        return 1
    res = search_cases(ctx, [(text, nb)])
    for r in res:
        print("FAIL", r["what"])
    return 1 if res else 0
