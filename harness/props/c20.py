"""C20 — a merged processing element, configured as decoded, computes each kernel.

(H) hand model coq/Model/C20Phs.v of snaxc/phs/{encode,combine,decode}.py and of
PEOp/ChooseOp/MuxOp (snaxc/dialects/phs.py).

L1: the real convert_generic_body_to_phs / append_to_abstract_graph / decode_abstract_graph /
    get_true_switches are run on histories of 1-5 generated kernel bodies (merged in a random order),
    their results converted structurally (converter below = trusted) and compared exactly, inside
    Coq, with the model's encode / append / decode / true_switches.
L2: no model involved.  The real merged PE is interpreted in Python (choose ops select a region by
    their switch, muxes select lhs/rhs) under the decoded switch values on small and random data
    inputs and compared with the kernel body's own evaluation, after every merge step, for every
    kernel merged so far (so a later merge that breaks an earlier kernel is seen); the number of
    decoded values must equal get_true_switches(); the SNAXPHSAccelerator built around the merged PE must
    report exactly get_true_switches() phs_switch_<i> fields and its get_switch_values(kernel) must produce
    exactly the decoded values, one per field.
Every call into the implementation is bounded (IMPL_BUDGET seconds of CPU time): a call that does not return
is reported with its input.  Graphs with more than MAX_MUXES muxes are not decoded (search_mapping is 2^muxes).
"""
from __future__ import annotations

import itertools
import math
import os
import signal
import struct
import warnings

import vlib
from vlib import coqlist, zlit

warnings.filterwarnings("ignore", category=DeprecationWarning)

PROPERTY = "C20"
MODEL_TARGETS = ["Model/C20Phs.vo", "Model/C20Order.vo"]
RULE = ("histories of 1-5 linalg.generic bodies over a common block-argument interface (2-3 data arguments of one "
        "type i8/i32/i64/f32/f64, or a mixed i32/i64 interface with extsi/trunci), 1-4 operations each from "
        "addi subi muli andi ori xori maxsi minsi shli / addf subf mulf divf maximumf minimumf (+ negf, select, "
        "cmpi/cmpf/constant in the attribute stream), operands drawn from block arguments and earlier results "
        "(permuted routing, repeated operands, unused arguments), merged in a random order, each decoded against "
        "every prefix of the merge (prefixes with more than 16 muxes are not decoded: search_mapping is 2^muxes).  Non-trivial: the merged PE has >= 1 mux or a choose op with >= 2 "
        "alternatives.  Distinct = distinct (history, order) texts")
TRUSTED_BASE = [
    "Coq 8.16.1 kernel + vm_compute (no native_compute)",
    "hand model coq/Model/C20Phs.v of snaxc/phs/encode.py, combine.py, decode.py and PEOp.get_true_switches, tied by L1 (this harness)",
    "harness/props/c20.py: converter xDSL IR -> abstract body / PE graph (structural: op names via a fixed table, "
    "operand identities, switch indices, attribute equality against the default-constructed op), the generators, "
    "the Python interpreter of phs.pe/phs.choose/phs.mux and of the arith ops used for L2",
    "harness/xdsl_compat.py; xDSL 0.70 parser, Block/Region/clone, SymbolTable lookup",
]
ASSUMPTIONS = [
    "history theorems (C20_history_correct_total, C20_bodies_history_correct): kernel graphs as encode produces them (kernel_total_ok, decidable) with one data arity per history; no assumption on attributes (since fix 61ae0b2) nor on the merge succeeding (C20_merge_succeeds); decode_sound/valid_mapping_sem/switch_count hold for any well-formed abstract graph",
    "the decidable hypotheses of the theorems (pe_wf of every merged graph, kernel_total_ok of every encoded graph, body_total_ok of every generated body, block_ordered) are evaluated by the model on every real graph of the run (L1 kinds wf, kok, ord)",
    "the meaning of a scalar operation is an arbitrary function of (op name, attributes, operand values) (Section variable opsem); types are not modelled beyond their role in the choose-op ids",
    "a PE is evaluated demand-driven: only the choose ops on the selected paths are evaluated (hardware: all units compute, muxes select)",
    "the switch values of a call are consumed in switch order by the muxes and by the choose ops with more than one alternative (one-alternative switches are removed, as remove-one-option-switches does)",
    "kernels with one yielded value (convert_generic_body_to_phs keeps operand 0 of the yield only)",
    "an argument index beyond the abstract graph's data arguments is an error in the model (the Python silently picks a switch argument); the generators keep one interface per history",
]

# ---------------------------------------------------------------- tables (part of the trusted converter)
TYPE_CODES = {"i1": 1, "i8": 8, "i16": 16, "i32": 32, "i64": 64, "f16": 116, "f32": 132, "f64": 164, "index": 200}
OP_CODES = {
    "arith.addi": 1, "arith.subi": 2, "arith.muli": 3, "arith.andi": 4, "arith.ori": 5, "arith.xori": 6,
    "arith.maxsi": 7, "arith.minsi": 8, "arith.shli": 9, "arith.divsi": 10, "arith.maxui": 11, "arith.minui": 12,
    "arith.addf": 20, "arith.subf": 21, "arith.mulf": 22, "arith.divf": 23, "arith.maximumf": 24,
    "arith.minimumf": 25, "arith.negf": 26, "arith.select": 30,
    # not constructible as type(op)(*operands): names >= 1000 (Model: default_constructible)
    "arith.cmpi": 1000, "arith.cmpf": 1001, "arith.constant": 1002, "arith.extsi": 1003, "arith.trunci": 1004,
    "arith.extui": 1005, "arith.sitofp": 1006, "arith.fptosi": 1007,
}


class ConvError(Exception):
    pass


def _impl():
    from xdsl.context import Context
    from xdsl.dialects import arith, builtin, func, linalg, tensor
    from snaxc.dialects import phs
    c = Context()
    for d in (builtin.Builtin, arith.Arith, linalg.Linalg, func.Func, tensor.Tensor, phs.Phs):
        c.load_dialect(d)
    return c


def tcode(t) -> int:
    s = str(t)
    if s not in TYPE_CODES:
        raise ConvError(f"type {s}")
    return TYPE_CODES[s]


class Conv:
    """xDSL IR -> abstract IR of coq/Model/C20Phs.v (as Python tuples)."""

    def __init__(self):
        self.attr_codes: dict = {}

    def opk(self, op, args):
        if op.name not in OP_CODES:
            raise ConvError(f"op {op.name}")
        name = OP_CODES[op.name]
        from xdsl.ir import Block
        fresh = Block(arg_types=[v.type for v in args]).args  # no uses added to the IR under conversion
        try:
            d = type(op)(*fresh)
            constructible = True
        except TypeError:
            d, constructible = None, False
        if constructible != (name < 1000):
            raise ConvError(f"default-constructibility of {op.name} differs from the table")
        if d is not None and d.properties == op.properties and d.attributes == op.attributes:
            return (name, 0)  # types are not modelled (they are part of the choose-op id)
        key = (op.name, str(sorted((k, str(v)) for k, v in op.properties.items())),
               str(sorted((k, str(v)) for k, v in op.attributes.items())), tuple(str(t) for t in op.result_types))
        if key not in self.attr_codes:
            self.attr_codes[key] = len(self.attr_codes) + 1
        return (name, self.attr_codes[key])

    def sig(self, op):
        return (tuple(tcode(o.type) for o in op.operands), tuple(tcode(r.type) for r in op.results))

    # ---- kernel body of a linalg.generic
    def body(self, generic):
        from xdsl.ir import BlockArgument
        block = generic.body.block
        ops = list(block.ops)
        idx = {id(o): j for j, o in enumerate(ops[:-1])}

        def ks(v):
            if isinstance(v, BlockArgument):
                if v.block is not block:
                    raise ConvError("foreign block argument")
                return ("a", v.index)
            if id(v.owner) in idx and len(v.owner.results) == 1:
                return ("o", idx[id(v.owner)])
            raise ConvError("operand")
        kops = []
        for o in ops[:-1]:
            if len(o.results) != 1 or o.regions:
                raise ConvError("op shape")
            kops.append((self.sig(o), self.opk(o, list(o.operands)), tuple(ks(v) for v in o.operands)))
        return (len(block.args), tuple(kops), tuple(ks(v) for v in ops[-1].operands))

    # ---- phs.pe
    def pe(self, pe):
        from xdsl.ir import BlockArgument
        from snaxc.dialects import phs
        block = pe.body.block
        nsw = pe.switch_no.value.data
        ndata = len(block.args) - nsw
        muxes_seen = set()

        def switch_index(v):
            if not isinstance(v, BlockArgument) or v.block is not block or v.index < ndata:
                raise ConvError("switch operand is not a switch argument")
            return v.index - ndata

        def src(v):
            if isinstance(v, BlockArgument):
                if v.block is not block or v.index >= ndata:
                    raise ConvError("data operand is a switch argument")
                return ("A", v.index)
            o = v.owner
            if isinstance(o, phs.ChooseOp):
                if o.parent is not block or len(o.results) != 1:
                    raise ConvError("choose operand")
                return ("C", self.ident(o))
            if isinstance(o, phs.MuxOp):
                if o.parent is not block or v.uses.get_length() != 1:
                    raise ConvError("mux shared or foreign")
                muxes_seen.add(id(o))
                return ("M", switch_index(o.switch), src(o.lhs), src(o.rhs))
            raise ConvError("operand owner")
        nodes = []
        ops = list(block.ops)
        if not ops or not isinstance(ops[-1], phs.YieldOp):
            raise ConvError("no terminator")
        for o in ops[:-1]:
            if isinstance(o, phs.ChooseOp):
                alts = []
                for r in o.regions:
                    inner = list(r.block.ops)
                    if len(inner) != 2 or not isinstance(inner[1], phs.YieldOp) or \
                            tuple(inner[1].operands) != tuple(inner[0].results) or \
                            tuple(inner[0].operands) != tuple(r.block.args):
                        raise ConvError("choose region is not `op(args in order); yield`")
                    alts.append(self.opk(inner[0], list(r.block.args)))
                nodes.append((self.ident(o), switch_index(o.switch), tuple(alts), tuple(src(v) for v in o.data_operands)))
            elif not isinstance(o, phs.MuxOp):
                raise ConvError(f"op {o.name} in pe")
        out = tuple(src(v) for v in ops[-1].operands)
        for o in ops:
            if isinstance(o, phs.MuxOp) and id(o) not in muxes_seen:
                raise ConvError("dangling mux")
        return (ndata, nsw, tuple(nodes), out)

    def ident(self, choose):
        """get_id's key "i_<t>_..._o_<t>_..._<n>" parsed back (type names contain no underscore)."""
        name = choose.name_prop.data
        tok = name.split("_")
        if len(tok) < 3 or tok[0] != "i" or "o" not in tok or not tok[-1].isdigit():
            raise ConvError(f"choose id {name}")
        k = tok.index("o")
        try:
            s = (tuple(TYPE_CODES[t] for t in tok[1:k]), tuple(TYPE_CODES[t] for t in tok[k + 1:-1]))
        except KeyError:
            raise ConvError(f"choose id {name}") from None
        if len(s[0]) != len(choose.data_operands) or len(s[1]) != len(choose.results):
            raise ConvError(f"choose id {name} does not match the operand count")
        return (s, int(tok[-1]))


# ---------------------------------------------------------------- Coq literals
HEADER = """From Snax Require Import Base.Prelude Model.C20Phs Model.C20Order.
Definition A (i : Z) := SArg (Z.to_nat i).
Definition C (s : sig) (n : Z) := SChoose (s, Z.to_nat n).
Definition M (s : Z) (l r : src) := SMux (Z.to_nat s) l r.
Definition N (sg : sig) (n s : Z) (ops : list opk) (args : list src) := mkNode (sg, Z.to_nat n) (Z.to_nat s) ops args.
Definition P (d n : Z) (ns : list node) (o : list src) := mkPe (Z.to_nat d) (Z.to_nat n) ns o.
Definition KA (i : Z) := KArg (Z.to_nat i).
Definition KO (i : Z) := KOp (Z.to_nat i).
Definition K (sg : sig) (k : opk) (args : list ksrc) := mkKop sg k args.
Definition B (n : Z) (ops : list kop) (y : list ksrc) := mkBody (Z.to_nat n) ops y.
"""


def zl(xs):
    return "[" + ";".join(zlit(x) for x in xs) + "]"


# constants shared by all cases of a run (signatures, operations): defined once per cases file, which keeps
# the literals short (elaboration time of the cases files is the bulk of the L1 cost)
_REG: dict = {}


def _reg(kind, lit):
    key = (kind, lit)
    if key not in _REG:
        _REG[key] = f"{kind}{len(_REG)}"
    return _REG[key]


def reg_defs():
    out = []
    for (kind, lit), name in _REG.items():
        out.append(f"Definition {name} : {'sig' if kind == 's' else 'opk'} := {lit}.")
    return "\n".join(out)


def c_sig(a, r):
    return _reg("s", f"({zl(a)}, {zl(r)})")


def c_src(s):
    if s[0] == "A":
        return f"A {s[1]}"
    if s[0] == "C":
        (a, r), n = s[1]
        return f"C {c_sig(a, r)} {n}"
    return f"M {s[1]} ({c_src(s[2])}) ({c_src(s[3])})"


def c_opk(k):
    return _reg("o", f"mkOp {zlit(k[0])} {zlit(k[1])}")


def c_pe(p):
    if p is None:
        return "None"
    nodes = []
    for ((a, r), n), s, ops, args in p[2]:
        nodes.append(f"N {c_sig(a, r)} {n} {s} {coqlist(c_opk(k) for k in ops)} {coqlist(c_src(x) for x in args)}")
    return f"(P {p[0]} {p[1]} {coqlist(nodes)} {coqlist(c_src(x) for x in p[3])})"


def c_optpe(p):
    return "None" if p is None else f"(Some {c_pe(p)})"


def c_body(b):
    def ks(s):
        return f"KA {s[1]}" if s[0] == "a" else f"KO {s[1]}"
    ops = [f"K {c_sig(sg[0], sg[1])} {c_opk(k)} {coqlist(ks(x) for x in args)}" for sg, k, args in b[1]]
    return f"(B {b[0]} {coqlist(ops)} {coqlist(ks(x) for x in b[2])})"


def c_optzl(x):
    return "None" if x is None else f"(Some {zl(x)})"


def c_optnat(x):
    return "None" if x is None else f"(Some {x}%nat)"


# ---------------------------------------------------------------- generators
INT_BIN = ["addi", "subi", "muli", "andi", "ori", "xori", "maxsi", "minsi", "shli"]
FLT_BIN = ["addf", "subf", "mulf", "divf", "maximumf", "minimumf"]
CMPI = ["eq", "ne", "slt", "sle", "sgt", "sge", "ult", "uge"]
CMPF = ["oeq", "ogt", "oge", "olt", "ole", "one"]


def gen_history(rng, attr_stream=False, mixed=False):
    """A history = list of kernels over one interface.  kernel = dict(argtypes, ops, yield)."""
    if mixed:
        argtypes = ["i32", "i64"] + (["i32"] if rng.random() < 0.3 else [])
    else:
        t = rng.choice(["i32", "i32", "f32", "f32", "i8", "i64", "f64"])
        argtypes = [t] * rng.choice([2, 2, 2, 3])
    use_out = rng.random() < 0.15
    ytype = rng.choice(["i32", "i64"]) if mixed else argtypes[0]
    nk = rng.choice([1, 2, 2, 3, 3, 4, 5])
    pool_small = rng.random() < 0.5  # few op kinds => more sharing of alternatives
    ks = []
    for _ in range(nk):
        for _try in range(20):
            k = gen_kernel(rng, argtypes, ytype, use_out, attr_stream, mixed, pool_small)
            used = {r[1] for o in k["ops"] for r in o["args"] if r[0] == "a"} | ({k["yield"][1]} if k["yield"][0] == "a" else set())
            want = set(range(len(argtypes) + (1 if use_out else 0)))
            if used == want or rng.random() < 0.06:
                break
        ks.append(k)
    return ks


def gen_kernel(rng, argtypes, want_ytype, use_out, attr_stream, mixed, pool_small):
    nops = rng.choice([1, 1, 2, 2, 3, 3, 4])
    outtype = None
    vals = [(("a", i), t) for i, t in enumerate(argtypes)]
    ops = []
    for j in range(nops):
        # pick an operand type present among the values
        types = sorted({t for _, t in vals})
        t = rng.choice(types)
        cands = [v for v, tt in vals if tt == t]
        recent = [v for v in cands if v[0] == "o"]

        def pick():
            if recent and rng.random() < 0.55:
                return rng.choice(recent[-2:])
            return rng.choice(cands)
        isf = t.startswith("f")
        r = rng.random()
        op = None
        if mixed and r < 0.45 and t in ("i32", "i64"):
            if t == "i32":
                op = dict(name="extsi", args=[pick()], rtype="i64", extra="i64")
            else:
                op = dict(name="trunci", args=[pick()], rtype="i32", extra="i32")
        elif attr_stream and r < 0.35 and t != "i1":
            if isf:
                op = dict(name="cmpf", args=[pick(), pick()], rtype="i1", extra=rng.choice(CMPF[:3] if pool_small else CMPF))
            else:
                op = dict(name="cmpi", args=[pick(), pick()], rtype="i1", extra=rng.choice(CMPI[:3] if pool_small else CMPI))
        elif attr_stream and r < 0.5 and t != "i1":
            op = dict(name="constant", args=[], rtype=t, extra=rng.choice([0, 1, 3]))
        elif attr_stream and r < 0.65 and "i1" in types and t != "i1":
            c = rng.choice([v for v, tt in vals if tt == "i1"])
            op = dict(name="select", args=[c, pick(), pick()], rtype=t, extra=None)
        elif isf and r > 0.93:
            op = dict(name="negf", args=[pick()], rtype=t, extra=None)
        if op is None:
            if t == "i1":
                name = rng.choice(["andi", "ori", "xori"])
            elif isf:
                name = rng.choice(FLT_BIN[:3] if pool_small else FLT_BIN)
            else:
                name = rng.choice(INT_BIN[:3] if pool_small else INT_BIN)
            op = dict(name=name, args=[pick(), pick()], rtype=t, extra=None)
        ops.append(op)
        vals.append((("o", j), op["rtype"]))
    # yield: mostly the last op, sometimes an earlier one or an argument
    r = rng.random()
    y = ("o", nops - 1) if r < 0.85 else rng.choice([v for v, _ in vals])
    ytype = dict(vals)[y]
    if ytype != want_ytype:
        # one interface per history: convert the result to the history's output type
        if ytype == "i1":
            cands = [v for v, tt in vals if tt == want_ytype]
            ops.append(dict(name="select", args=[y, rng.choice(cands), rng.choice(cands)], rtype=want_ytype, extra=None))
        elif want_ytype == "i64":
            ops.append(dict(name="extsi", args=[y], rtype="i64", extra="i64"))
        else:
            ops.append(dict(name="trunci", args=[y], rtype="i32", extra="i32"))
        y = ("o", len(ops) - 1)
        ytype = want_ytype
    if use_out:
        # a reduction-style use of the output argument when its type allows it
        isf = ytype.startswith("f")
        if ytype != "i1":
            ops.append(dict(name="addf" if isf else "addi", args=[("a", len(argtypes)), y], rtype=ytype, extra=None))
            y = ("o", len(ops) - 1)
    return dict(argtypes=list(argtypes), ops=ops, **{"yield": y}, ytype=ytype)


def kernel_text(k):
    at = k["argtypes"]
    n = len(at)
    ty = k["ytype"]

    def ref(r):
        if r[0] == "a":
            return f"%in{r[1]}" if r[1] < n else "%out"
        return f"%v{r[1]}"

    def rtype(r):
        if r[0] == "a":
            return at[r[1]] if r[1] < n else ty
        return k["ops"][r[1]]["rtype"]
    lines = []
    for j, o in enumerate(k["ops"]):
        a = [ref(x) for x in o["args"]]
        nm = o["name"]
        if nm in ("cmpi", "cmpf"):
            lines.append(f"%v{j} = arith.{nm} {o['extra']}, {a[0]}, {a[1]} : {rtype(o['args'][0])}")
        elif nm in ("extsi", "trunci", "extui", "sitofp", "fptosi"):
            lines.append(f"%v{j} = arith.{nm} {a[0]} : {rtype(o['args'][0])} to {o['rtype']}")
        elif nm == "constant":
            v = o["extra"]
            lit = f"{float(v):e}" if o["rtype"].startswith("f") else str(v)
            lines.append(f"%v{j} = arith.constant {lit} : {o['rtype']}")
        elif nm == "select":
            lines.append(f"%v{j} = arith.select {a[0]}, {a[1]}, {a[2]} : {o['rtype']}")
        elif nm == "negf":
            lines.append(f"%v{j} = arith.negf {a[0]} : {o['rtype']}")
        else:
            lines.append(f"%v{j} = arith.{nm} {a[0]}, {a[1]} : {o['rtype']}")
    ins = ", ".join(f"%a{i}" for i in range(n))
    intys = ", ".join(f"tensor<4x{t}>" for t in at)
    maps = ", ".join(["affine_map<(d0) -> (d0)>"] * (n + 1))
    bargs = ", ".join(f"%in{i}: {t}" for i, t in enumerate(at))
    fargs = ", ".join(f"%a{i}: tensor<4x{t}>" for i, t in enumerate(at))
    body = "\n    ".join(lines)
    return f"""func.func @f({fargs}, %o: tensor<4x{ty}>) -> tensor<4x{ty}> {{
  %r = linalg.generic {{indexing_maps = [{maps}], iterator_types = ["parallel"]}} ins({ins} : {intys}) outs(%o : tensor<4x{ty}>) {{
  ^bb0({bargs}, %out: {ty}):
    {body}
    linalg.yield {ref(k['yield'])} : {ty}
  }} -> tensor<4x{ty}>
  return %r : tensor<4x{ty}>
}}
"""


# ---------------------------------------------------------------- running the implementation
_CTX = None


def parse_generic(text):
    global _CTX
    from xdsl.dialects import linalg
    from xdsl.parser import Parser
    if _CTX is None:
        _CTX = _impl()
    m = Parser(_CTX, text).parse_module()
    return [o for o in m.walk() if isinstance(o, linalg.GenericOp)][0]


def real_encode(generic):
    from xdsl.pattern_rewriter import PatternRewriter
    from snaxc.phs.encode import convert_generic_body_to_phs
    return convert_generic_body_to_phs(generic, "acc", PatternRewriter(generic))


# Every call into the implementation is bounded.  decode's search_mapping validates an assignment only when
# all muxes are assigned (2^m leaves, no pruning), so a changed combine/decode that adds muxes or loses the valid
# assignment makes one decode call run for hours; any other non-terminating change would do the same.  The bound
# is on the CPU time of this process (ITIMER_VIRTUAL: independent of the load of the machine and of the
# SIGALRM watchdog of check.py).  A call that exceeds it is reported as a failure with the input (klass None).
IMPL_BUDGET = float(os.environ.get("VERIF_C20_CALL_BUDGET", "30"))
# unchanged code: 2^15 leaves take about 1.3 s; graphs with more muxes than this are not decoded (counted in the
# histogram as skipped_muxes): domain bound of L1/L2, the theorems have no such bound
MAX_MUXES = 16
TIMEOUT = "TIMEOUT"


class ImplTimeout(BaseException):
    """not an Exception: an `except Exception` inside the implementation must not swallow it"""


def _on_vtalrm(signum, frame):
    raise ImplTimeout()


def guarded(f, *a):
    """Returns (result, None) or (None, exception repr); (None, "TIMEOUT: ...") when the call exceeds IMPL_BUDGET."""
    old = signal.signal(signal.SIGVTALRM, _on_vtalrm)
    signal.setitimer(signal.ITIMER_VIRTUAL, IMPL_BUDGET)
    try:
        r = f(*a)
        signal.setitimer(signal.ITIMER_VIRTUAL, 0)
        return r, None
    except ImplTimeout:
        return None, f"{TIMEOUT}: {getattr(f, '__qualname__', f)} did not return within {IMPL_BUDGET:g} s of CPU time"
    except Exception as e:  # noqa: BLE001 — any exception of the implementation maps to the model's None
        if type(e).__name__ == "CheckTimeout":  # the watchdog of check.py is not an answer of the implementation
            raise
        return None, f"{type(e).__name__}: {e}"[:160]
    finally:
        signal.setitimer(signal.ITIMER_VIRTUAL, 0)
        signal.signal(signal.SIGVTALRM, old)


def is_timeout(err):
    return bool(err) and err.startswith(TIMEOUT)


def n_muxes(pe):
    from snaxc.dialects import phs
    return sum(isinstance(o, phs.MuxOp) for o in pe.body.ops)


# ---------------------------------------------------------------- L2 interpreter (implementation side only)
def _width(t):
    s = str(t)
    if s == "index":
        return 64
    return int(s[1:])


def _wrap(v, w):
    v &= (1 << w) - 1
    return v - (1 << w) if v >> (w - 1) else v


def _f(v, t):
    if str(t) == "f32":
        try:
            return struct.unpack("f", struct.pack("f", v))[0]
        except OverflowError:
            return math.inf if v > 0 else -math.inf
    return v


def _fdiv(a, b):
    if b == 0:
        if a == 0 or a != a:
            return math.nan
        return math.copysign(math.inf, a) * math.copysign(1.0, b)
    return a / b


def op_eval(op, vals):
    """Value of one arith op on Python ints (two's complement, signed representative) / floats."""
    n = op.name
    rt = op.results[0].type
    if n == "arith.constant":
        v = op.value.value.data
        return _f(float(v), rt) if str(rt).startswith("f") else _wrap(int(v), _width(rt))
    if n in ("arith.addi", "arith.subi", "arith.muli", "arith.andi", "arith.ori", "arith.xori", "arith.maxsi",
             "arith.minsi", "arith.shli", "arith.divsi", "arith.maxui", "arith.minui"):
        w = _width(rt)
        a, b = vals
        ua, ub = a & ((1 << w) - 1), b & ((1 << w) - 1)
        r = {"arith.addi": a + b, "arith.subi": a - b, "arith.muli": a * b, "arith.andi": ua & ub, "arith.ori": ua | ub,
             "arith.xori": ua ^ ub, "arith.maxsi": max(a, b), "arith.minsi": min(a, b),
             "arith.shli": (ua << ub) if ub < w else 0,
             "arith.divsi": (abs(a) // abs(b)) * (1 if (a < 0) == (b < 0) else -1) if b != 0 else 0,
             "arith.maxui": max(ua, ub), "arith.minui": min(ua, ub)}[n]
        return _wrap(r, w)
    if n in ("arith.addf", "arith.subf", "arith.mulf", "arith.divf", "arith.maximumf", "arith.minimumf"):
        a, b = vals
        if a != a or b != b:
            return math.nan
        if n == "arith.addf":
            r = a + b
        elif n == "arith.subf":
            r = a - b
        elif n == "arith.mulf":
            r = a * b
        elif n == "arith.divf":
            r = _fdiv(a, b)
        elif n == "arith.maximumf":
            r = max(a, b)
        else:
            r = min(a, b)
        return _f(r, rt)
    if n == "arith.negf":
        return -vals[0]
    if n == "arith.select":
        return vals[1] if vals[0] & 1 else vals[2]
    if n == "arith.cmpi":
        w = _width(op.operands[0].type)
        a, b = vals
        ua, ub = a & ((1 << w) - 1), b & ((1 << w) - 1)
        p = op.predicate.value.data
        r = [a == b, a != b, a < b, a <= b, a > b, a >= b, ua < ub, ua <= ub, ua > ub, ua >= ub][p]
        return -1 if r else 0  # i1 signed representative
    if n == "arith.cmpf":
        a, b = vals
        p = op.predicate.value.data
        un = a != a or b != b
        table = {0: False, 1: (not un) and a == b, 2: (not un) and a > b, 3: (not un) and a >= b, 4: (not un) and a < b,
                 5: (not un) and a <= b, 6: (not un) and a != b, 7: not un, 8: un or a == b, 9: un or a > b,
                 10: un or a >= b, 11: un or a < b, 12: un or a <= b, 13: un or a != b, 14: un, 15: True}
        return -1 if table[p] else 0
    if n == "arith.extsi":
        return vals[0]
    if n == "arith.extui":
        return vals[0] & ((1 << _width(op.operands[0].type)) - 1)
    if n == "arith.trunci":
        return _wrap(vals[0], _width(rt))
    raise ConvError(f"L2 interpreter: {n}")


def same(a, b):
    if isinstance(a, float) and isinstance(b, float) and a != a and b != b:
        return True
    return a == b and type(a) is type(b)


def eval_block(block, argvals):
    from snaxc.dialects import phs
    env = {id(a): v for a, v in zip(block.args, argvals, strict=True)}
    for o in block.ops:
        if o.name in ("linalg.yield", "phs.yield"):
            return env[id(o.operands[0])]
        if isinstance(o, (phs.ChooseOp, phs.MuxOp)):
            raise ConvError("nested phs op")
        env[id(o.results[0])] = op_eval(o, [env[id(v)] for v in o.operands])
    raise ConvError("no yield")


def eval_generic_body(generic, ins):
    """ins: values of the *used* block arguments, in order (what the PE receives)."""
    block = generic.body.block
    it = iter(ins)
    argvals = [next(it) if a.uses.get_length() else None for a in block.args]
    return eval_block(block, argvals)


def eval_real_pe(pe, sw, ins):
    """Demand-driven interpretation of a phs.pe under the compact switch list `sw`."""
    from xdsl.ir import BlockArgument
    from snaxc.dialects import phs
    block = pe.body.block
    nsw = pe.switch_no.value.data
    ndata = len(block.args) - nsw
    if len(ins) != ndata:
        raise ConvError("arity")
    swval = {}
    it = iter(sw)
    for s in block.args[ndata:]:
        uses = list(s.uses)
        if len(uses) != 1:
            raise ConvError("switch with != 1 use")
        u = uses[0].operation
        if isinstance(u, phs.MuxOp) or (isinstance(u, phs.ChooseOp) and len(u.regions) > 1):
            swval[id(s)] = next(it)
    if list(it):
        raise ConvError("more switch values than true switches")
    onstack = set()

    def ev(v):
        if isinstance(v, BlockArgument):
            if v.block is not block or v.index >= ndata:
                raise ConvError("data operand is a switch")
            return ins[v.index]
        o = v.owner
        if isinstance(o, phs.MuxOp):
            return ev(o.rhs) if swval[id(o.switch)] == 1 else ev(o.lhs)
        if isinstance(o, phs.ChooseOp):
            if id(o) in onstack:
                raise ConvError("combinational cycle on the selected path")
            onstack.add(id(o))
            vals = [ev(x) for x in o.data_operands]
            onstack.discard(id(o))
            regs = list(o.regions)
            i = swval.get(id(o.switch), 0) if len(regs) > 1 else 0
            if not 0 <= i < len(regs):
                i = 0
            return eval_block(regs[i].block, vals)
        raise ConvError("owner")
    return ev(block.ops.last.operands[0])


def data_inputs(rng, types, quick=True):
    """small exhaustive + random inputs for the given data argument types."""
    def small(t):
        if t.startswith("f"):
            return [-1.5, 0.0, 2.0]
        if t == "i1":
            return [0, -1]
        return [-2, 0, 1, 3]

    def rnd(t):
        if t.startswith("f"):
            return _f(rng.choice([rng.uniform(-100, 100), rng.uniform(-1, 1), float(rng.randrange(-5, 6))]), t)
        if t == "i1":
            return rng.choice([0, -1])
        w = int(t[1:])
        return _wrap(rng.getrandbits(w), w) if rng.random() < 0.5 else rng.randrange(-9, 10)
    out = [list(p) for p in itertools.product(*[small(t) for t in types])]
    if len(out) > 40:
        out = rng.sample(out, 40)
    out += [[rnd(t) for t in types] for _ in range(8)]
    return out


# ---------------------------------------------------------------- the property on the implementation
def block_ordered(pe):
    seen = set(id(a) for a in pe.body.block.args)
    for o in pe.body.block.ops:
        for v in o.operands:
            if id(v) not in seen:
                return False
        for r in o.results:
            seen.add(id(r))
    return True


def make_accelerator(pe):
    """The accelerator object the compiler builds around a merged PE (snaxc/tools/phsc_main.py): it reports the
    phs_switch_<i> setup fields (from get_true_switches) and produces the switch values of a kernel."""
    from xdsl.ir.affine import AffineMap
    from snaxc.accelerators.snax_phs import SNAXPHSAccelerator
    from snaxc.phs.template_spec import TemplateSpec
    one = AffineMap.identity(1)
    return SNAXPHSAccelerator(pe, TemplateSpec((one,), (one,), (4,)))


def switch_value_ints(vals):
    """get_switch_values returns [(ops, value)]: the integer each value is defined as"""
    out = []
    for ops, v in vals:
        c = v.owner
        if c.name != "arith.constant" or all(c is not o for o in ops):
            raise ConvError("switch value is not one of the returned constants")
        out.append(c.value.value.data)
    return out


def check_history(rng, texts, order, ninputs=None):
    """Runs the real encode/append/decode over the history, after every merge step decodes every kernel merged so
    far and evaluates.  Returns (failures, info)."""
    from snaxc.phs.combine import append_to_abstract_graph
    from snaxc.phs.decode import decode_abstract_graph
    fails = []
    gens = [parse_generic(texts[i]) for i in order]
    G = None
    info = {"muxes": 0, "alts": 0, "decoded": 0, "skipped": False, "skipped_muxes": False}
    ar = set()
    for t in texts:
        pe0, err = guarded(real_encode, parse_generic(t))
        ar.add(None if err else len(pe0.data_operands()))
    if len(ar) != 1:
        # outside the domain of the property: the kernels do not have the same number of (used) data arguments;
        # decode refuses such a pair loudly (assertion on the number of data operands)
        info["skipped"] = True
        return fails, info
    for step, gen in enumerate(gens):
        pe, err = guarded(real_encode, gen)
        if err:
            fails.append(dict(what="encode hangs" if is_timeout(err) else "encode raised", step=step, detail=err,
                              klass=None if is_timeout(err) else "loud_error"))
            return fails, info
        if G is None:
            G = pe
        else:
            _, err = guarded(append_to_abstract_graph, pe, G)
            if err:
                fails.append(dict(what="append hangs" if is_timeout(err) else "append raised", step=step, detail=err,
                                  klass=None if is_timeout(err) else "loud_error"))
                return fails, info
        _, err = guarded(G.verify)
        if err:
            fails.append(dict(what="merged PE does not verify", step=step, detail=err, klass=None))
        if not block_ordered(G):
            fails.append(dict(what="merged PE uses a value before its definition", step=step, detail=str(G)[:1500],
                              klass="order_inversion"))
        tsw, err = guarded(G.get_true_switches)
        if err:
            fails.append(dict(what="get_true_switches raised", step=step, detail=err, klass=None))
            return fails, info
        if n_muxes(G) > MAX_MUXES:
            # the implementation's search is 2^muxes: not decoded (later steps only add muxes)
            info["skipped_muxes"] = True
            break
        acc, err = guarded(make_accelerator, G)
        if err:
            fails.append(dict(what="SNAXPHSAccelerator cannot be built around the merged PE", step=step, detail=err, klass=None))
            return fails, info
        nfields = [f for f in acc.fields if f.startswith("phs_switch_")]
        if nfields != [f"phs_switch_{i}" for i in range(tsw)] or list(acc.phs_switch_fields) != nfields:
            fails.append(dict(what="switch fields reported for the hardware", step=step,
                              detail=dict(fields=list(acc.fields), true_switches=tsw), klass=None))
        for j in range(step + 1):
            genj = parse_generic(texts[order[j]])
            gj = real_encode(genj)
            sw, err = guarded(decode_abstract_graph, G, gj)
            if is_timeout(err):
                fails.append(dict(what="decode hangs", step=step, kernel=j, detail=err, klass=None))
                return fails, info
            if err:
                fails.append(dict(what="kernel no longer decodable", step=step, kernel=j, detail=err,
                                  klass=None))
                continue
            info["decoded"] += 1
            if len(sw) != tsw:
                fails.append(dict(what="switch count", step=step, kernel=j, detail=dict(values=list(sw), true_switches=tsw),
                                  klass=None))
                continue
            # the values the accelerator puts into the accfg.setup, one per reported phs_switch_<i> field
            vals, err = guarded(lambda: switch_value_ints(acc.get_switch_values(genj)))
            if err or vals != list(sw):
                fails.append(dict(what="switch values produced for the setup differ from the decoded ones / the "
                                       "reported fields", step=step, kernel=j,
                                  detail=dict(decoded=list(sw), produced=vals if not err else err,
                                              fields=list(acc.phs_switch_fields)), klass=None))
                continue
            types = [str(a.type) for a in gj.data_operands()]
            for ins in data_inputs(rng, types):
                want = eval_generic_body(genj, ins)
                got, err = guarded(eval_real_pe, G, list(sw), ins)
                if err or not same(got, want):
                    fails.append(dict(what="merged PE computes another function", step=step, kernel=j,
                                      detail=dict(switches=list(sw), inputs=ins, expected=repr(want),
                                                  got=repr(got) if not err else err, pe=str(G)[:2500]),
                                      klass=None))
                    break
    from snaxc.dialects import phs
    info["muxes"] = sum(isinstance(o, phs.MuxOp) for o in G.body.ops)
    info["alts"] = max([len(o.regions) for o in G.body.ops if isinstance(o, phs.ChooseOp)] or [0])
    return fails, info


def gen_case(rng, i):
    attr = (i % 7 == 3)
    mixed = (i % 11 == 5)
    ks = gen_history(rng, attr_stream=attr, mixed=mixed)
    texts = [kernel_text(k) for k in ks]
    order = list(range(len(ks)))
    rng.shuffle(order)
    return texts, order, ("attr" if attr else "mixed" if mixed else "plain")


def search(ctx, deep=False):
    rng = ctx.rng
    n = ctx.n(80, 1000) * (3 if deep else 1)
    fails = []
    for i in range(n):
        texts, order, stream = gen_case(rng, i)
        fs, info = check_history(rng, texts, order)
        for f in fs:
            if f["klass"] == "loud_error":
                continue
            f.update(texts=texts, order=order)
            fails.append(f)
        if info["skipped"]:
            ctx.histogram["L2:skipped_interface"] = ctx.histogram.get("L2:skipped_interface", 0) + 1
            continue
        if info["skipped_muxes"]:
            ctx.histogram["L2:skipped_muxes"] = ctx.histogram.get("L2:skipped_muxes", 0) + 1
        ctx.count({"L2": stream, "kernels": len(texts), "order": order, "muxes": info["muxes"], "alts": info["alts"]},
                  info["muxes"] > 0 or info["alts"] > 1, "l2" + "".join(texts) + str(order), f"L2:{stream}:{len(texts)}")
    return _dedup(fails)


def _dedup(fails):
    seen, out = set(), []
    for f in fails:
        k = (f["what"], f["klass"])
        if k not in seen:
            seen.add(k)
            out.append(f)
    return out


# ---------------------------------------------------------------- L1
def _l1_history(ctx, conv, cases, meta, pre, texts, order):
    from snaxc.phs.combine import append_to_abstract_graph
    from snaxc.phs.decode import decode_abstract_graph
    G = None
    for step, ki in enumerate(order):
        gen = parse_generic(texts[ki])
        b = conv.body(gen)
        pe, err = guarded(real_encode, gen)
        if is_timeout(err):
            pre.append({"name": "L1:hang", "case": dict(texts=texts, order=order, step=step), "detail": err})
            return
        cpe = None if err else conv.pe(pe)
        cases["enc"].append(f"({c_body(b)}, {c_optpe(cpe)})")
        meta["enc"].append(dict(text=texts[ki], err=err))
        ctx.count({"L1": "encode", "body": texts[ki]}, len(b[1]) > 1, "enc" + texts[ki], "L1:encode")
        if err:
            break
        # what the theorems assume of an encoded kernel graph (concrete, unique ids, well-formed)
        cases["kok"].append(c_pe(cpe))
        meta["kok"].append(dict(text=texts[ki]))
        # the hypothesis of C20_bodies_history_correct_total on the real body
        cases["bok"].append(c_body(b))
        meta["bok"].append(dict(text=texts[ki]))
        if G is None:
            G = pe
        else:
            before = conv.pe(G)
            if _max_arg(cpe) >= before[0]:
                # outside the model's domain (ASSUMPTIONS): the graph addresses a data argument the abstract
                # graph does not have; the Python then picks a switch argument or raises
                ctx.histogram["L1:skipped_interface"] = ctx.histogram.get("L1:skipped_interface", 0) + 1
                break
            _, err = guarded(append_to_abstract_graph, pe, G)
            if is_timeout(err):
                pre.append({"name": "L1:hang", "case": dict(texts=texts, order=order, step=step), "detail": err})
                return
            after = None if err else conv.pe(G)
            cases["app"].append(f"({c_pe(cpe)}, {c_pe(before)}, {c_optpe(after)})")
            meta["app"].append(dict(texts=texts, order=order, step=step, err=err))
            ctx.count({"L1": "append", "step": step}, after is not None and after != before,
                      "app" + "".join(texts) + str(order) + str(step), "L1:append")
            if err:
                break
        cG = conv.pe(G)
        tsw, err = guarded(G.get_true_switches)
        cases["tsw"].append(f"({c_pe(cG)}, {c_optnat(tsw)})")
        meta["tsw"].append(dict(texts=texts, order=order, step=step, err=err))
        ctx.count({"L1": "true_switches"}, bool(tsw), None, "L1:true_switches")
        # the structural well-formedness the theorems assume of a merged graph (decidable, checked here on
        # every real merged graph)
        cases["wf"].append(c_pe(cG))
        meta["wf"].append(dict(texts=texts, order=order, step=step))
        # class predicate of C20-F2: the model's block_ordered against SSA dominance in the real block
        cases["ord"].append(f"({c_pe(cG)}, {'true' if block_ordered(G) else 'false'})")
        meta["ord"].append(dict(texts=texts, order=order, step=step))
        # decode every kernel of the history (also the ones not merged yet: error / default paths)
        merged = set(order[:step + 1])
        extra = order[step + 1] if step + 1 < len(order) else None
        if n_muxes(G) > MAX_MUXES:
            # search_mapping (and the model's search) is 2^muxes: such graphs are not decoded
            ctx.histogram["L1:skipped_muxes"] = ctx.histogram.get("L1:skipped_muxes", 0) + 1
            continue
        for kj in range(len(texts)):
            if kj not in merged and kj != extra:
                continue
            gj = real_encode(parse_generic(texts[kj]))
            cg = conv.pe(gj)
            sw, err = guarded(decode_abstract_graph, G, gj)
            if is_timeout(err):
                pre.append({"name": "L1:hang", "case": dict(texts=texts, order=order, step=step, kernel=kj), "detail": err})
                return
            cases["dec"].append(f"({cG_lit(cG)}, {c_pe(cg)}, {c_optzl(None if err else list(sw))})")
            meta["dec"].append(dict(texts=texts, order=order, step=step, kernel=kj, err=err, sw=None if err else list(sw)))
            ctx.count({"L1": "decode", "switches": None if err else list(sw)}, bool(sw),
                      "dec" + "".join(texts) + str(order) + str(step) + str(kj), "L1:decode")


def correspondence(ctx):
    rng = ctx.rng
    n = ctx.n(60, 600)
    _REG.clear()
    cases = {k: [] for k in ("enc", "app", "dec", "tsw", "wf", "kok", "ord", "bok")}
    meta = {k: [] for k in cases}
    conv = Conv()
    pre = []  # disagreements found on the Python side: the implementation hangs / returns a graph outside the PE form
    for i in range(n):
        texts, order, stream = gen_case(rng, i)
        try:
            _l1_history(ctx, conv, cases, meta, pre, texts, order)
        except ConvError as e:
            # the converter is total on what the real functions return on the unchanged tree; a graph it rejects
            # (dangling or shared mux, foreign operand ...) is not a PE graph of the model: disagreement
            pre.append({"name": "L1:converter", "case": dict(texts=texts, order=order), "detail": f"ConvError: {e}"})
    tests = {
        "enc": "fun c : body * option pe => opt_eqb pe_eqb (encode (fst c)) (snd c)",
        "app": "fun c : pe * pe * option pe => match c with (g, G, r) => opt_eqb pe_eqb (append g G) r end",
        "dec": "fun c : pe * pe * option (list Z) => match c with (G, g, r) => opt_eqb (list_eqb Z.eqb) (decode G g) r end",
        "tsw": "fun c : pe * option nat => opt_eqb Nat.eqb (true_switches (fst c)) (snd c)",
        "wf": "pe_wf",
        "kok": "kernel_total_ok",
        "bok": "body_total_ok",
        "ord": "fun c : pe * bool => Bool.eqb (block_ordered (fst c)) (snd c)",
    }
    # shards: few files (every coqc start costs seconds), each with one list per kind
    types = {"enc": "body * option pe", "app": "pe * pe * option pe", "dec": "pe * pe * option (list Z)",
             "tsw": "pe * option nat", "wf": "pe", "kok": "pe", "ord": "pe * bool", "bok": "body"}
    kinds = list(tests)
    NSH = 4 if not ctx.thorough else 8
    shards = [{k: [] for k in kinds} for _ in range(NSH)]
    sizes = [0] * NSH
    for k in kinds:
        for idx, c in enumerate(cases[k]):
            sh = sizes.index(min(sizes))
            shards[sh][k].append(idx)
            sizes[sh] += len(c)
    texts_out = []
    for sh in shards:
        t = [HEADER, reg_defs()]
        for k in kinds:
            t.append(f"Definition cases_{k} : list ({types[k]}) := {coqlist(cases[k][i] for i in sh[k])}.")
            t.append(f"Eval vm_compute in failing ({tests[k]}) cases_{k}.")
        texts_out.append("\n".join(t) + "\n")
    res = vlib.coq_eval_many("c20_", texts_out, timeout=900, par=NSH)
    dis = list(pre)
    for sh, (ok, out) in zip(shards, res):
        lists = vlib.parse_all_eval_lists(out)
        if not ok or len(lists) != len(kinds):
            dis.append({"name": "cases-file", "detail": out[-1500:]})
            continue
        for k, bad in zip(kinds, lists):
            for pos in bad:
                idx = sh[k][pos]
                dis.append({"name": f"L1:{k}", "case": meta[k][idx], "coq_case": cases[k][idx][:1500]})
    return dis


def _max_arg(cpe):
    def m(x):
        return x[1] if x[0] == "A" else -1 if x[0] == "C" else max(m(x[2]), m(x[3]))
    return max([m(x) for nd in cpe[2] for x in nd[3]] + [m(x) for x in cpe[3]] + [-1])


def cG_lit(cG):
    return c_pe(cG)


# ---------------------------------------------------------------- known findings / replay
def replay_known(ctx, entry):
    w = entry["witness"]
    fails, _ = check_history(ctx.rng, w["texts"], w["order"])
    return any(f["klass"] == entry["class"] for f in fails)


def replay(ctx, obj):
    f = obj.get("failure")
    if not f:
        print("no failing input recorded; broken obligations:", obj.get("no_longer_checks"))
        return 1
    for i, t in enumerate(f["texts"]):
        print(f"--- kernel {i}\n{t}")
    print("merge order:", f["order"])
    fails, _ = check_history(ctx.rng, f["texts"], f["order"])
    for x in fails:
        print("FAIL", {k: v for k, v in x.items() if k not in ("texts",)})
    return 1 if fails else 0
