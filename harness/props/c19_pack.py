"""C19 (c) pack_bitlist: L1 (emitted op list == model op list, emitted DAG value == model value) and
L2 (the real emitted DAG, interpreted in Python, equals or-of-shifted-fields mod 2^w)."""
from __future__ import annotations

import vlib
from vlib import coqlist, zlit

PART = "pack"
POOL = 4  # number of pre-existing SSA values


def _impl():
    from snaxc.util.pack_bitlist import pack_bitlist
    return pack_bitlist


def gen_case(rng, malformed_ok=True):
    """-> dict(values=[("int",z)|("val",i)|("op",i)], offsets=[…], dtype=w, ext=[POOL run-time values])"""
    w = rng.choice([32, 32, 32, 64, 64, 8, 16])
    n = rng.choice([0, 1, 1, 2, 2, 3, 4, 4, 4, 5, 6, 7, 8, 9])

    def item(is_off):
        r = rng.random()
        if r < 0.3:
            return [rng.choice(["val", "op"]), rng.randrange(POOL)]
        if is_off:
            z = rng.choice([0, 0, 1, 4, 8, 16, 24, w - 1, w // 2, rng.randrange(0, w), rng.randrange(0, w)])
            if malformed_ok and rng.random() < 0.05:
                z = rng.choice([w, w + 3, -1, 100])
        else:
            z = rng.choice([0, 1, 2, 3, 128, 255, -1, -3, 2 ** (w - 1), 2 ** w - 1, 2 ** (w - 1) - 1, -(2 ** (w - 1)),
                            rng.randrange(0, 256), rng.randrange(-(2 ** (w - 1)), 2 ** w)])
            if malformed_ok and rng.random() < 0.04:
                z = rng.choice([2 ** w, -(2 ** (w - 1)) - 1, 2 ** w + 5])
        return ["int", z]

    values = [item(False) for _ in range(n)]
    m = n
    if malformed_ok and rng.random() < 0.05:
        m = max(0, n + rng.choice([-1, 1]))
    offsets = [item(True) for _ in range(m)]
    # run-time contents of the pre-existing values: small (usable as offsets) and arbitrary
    ext = [rng.choice([0, 1, 3, 8, 16, w - 1, w, rng.randrange(0, w), rng.randrange(0, 2 ** w)]) for _ in range(POOL)]
    return {"values": values, "offsets": offsets, "dtype": w, "ext": ext}


def run_impl(case):
    """Runs the real generator. Returns (ops|None, pool) with ops a list of abstract ops:
    ("const", z) | ("shl", ref, ref) | ("or", ref, ref) | (opname, ref...) ; ref = ("ext", i) | ("res", k)."""
    from xdsl.dialects import arith, builtin
    from xdsl.ir import Operation
    w = case["dtype"]
    ty = builtin.IntegerType(w)
    pool_ops = [arith.ConstantOp.from_int_and_width(0, ty) for _ in range(POOL)]
    pool_vals = [o.result for o in pool_ops]

    def mk(it):
        kind, x = it
        if kind == "int":
            return x
        return pool_vals[x] if kind == "val" else pool_ops[x]

    try:
        ops = list(_impl()([mk(i) for i in case["values"]], [mk(i) for i in case["offsets"]], w))
    except Exception as e:  # zip strict / VerifyException
        return None, repr(e)[:120]
    idx = {id(o): k for k, o in enumerate(ops)}
    out = []
    for o in ops:
        assert isinstance(o, Operation)

        def ref(v):
            ow = v.owner
            if id(ow) in idx:
                return ("res", idx[id(ow)])
            for i, pv in enumerate(pool_vals):
                if pv is v:
                    return ("ext", i)
            return ("unknown", -1)

        if isinstance(o, arith.ConstantOp):
            out.append(("const", o.value.value.data, o.result.type.width.data if hasattr(o.result.type, "width") else None))
        elif isinstance(o, arith.ShLIOp):
            out.append(("shl", ref(o.operands[0]), ref(o.operands[1])))
        elif isinstance(o, arith.OrIOp):
            out.append(("or", ref(o.operands[0]), ref(o.operands[1])))
        else:
            out.append((o.name, *[ref(v) for v in o.operands]))
    return out, None


# -------------------------------------------------------------- independent interpreter of the emitted ops
def interp(ops, w, ext):
    """value of the last op; arith semantics at width w (shift amount >= w gives 0)."""
    M = 2 ** w
    res = []

    def val(r):
        return ext[r[1]] % M if r[0] == "ext" else res[r[1]]

    for o in ops:
        k = o[0]
        if k == "const":
            res.append(o[1] % M)
            continue
        a, b = val(o[1]), val(o[2])
        if k in ("shl", "arith.shli"):
            res.append((a << b) % M if b < w else 0)
        elif k in ("or", "arith.ori"):
            res.append(a | b)
        elif k == "arith.xori":
            res.append(a ^ b)
        elif k == "arith.andi":
            res.append(a & b)
        elif k == "arith.addi":
            res.append((a + b) % M)
        elif k == "arith.subi":
            res.append((a - b) % M)
        elif k == "arith.muli":
            res.append((a * b) % M)
        elif k == "arith.shrui":
            res.append(a >> b if b < w else 0)
        else:
            raise ValueError(f"cannot interpret {k}")
    return res[-1] if res else None


def spec(case):
    w = case["dtype"]
    M = 2 ** w

    def val(it):
        return (it[1] if it[0] == "int" else case["ext"][it[1]]) % M

    acc = 0
    for v, o in zip(case["values"], case["offsets"]):
        sh = val(o)
        acc |= (val(v) << sh) if sh < w else 0
    return acc % M


# -------------------------------------------------------------- Coq literals
def coq_operand(it):
    return f"(PInt {zlit(it[1])})" if it[0] == "int" else f"(PVal {it[1]}%nat)"


def coq_ref(r):
    return f"(RExt {r[1]}%nat)" if r[0] == "ext" else f"(RRes {r[1]}%nat)"


def coq_op(o):
    if o[0] == "const":
        return f"(OpConst {zlit(o[1])})"
    if o[0] == "shl":
        return f"(OpShl {coq_ref(o[1])} {coq_ref(o[2])})"
    if o[0] == "or":
        return f"(OpOr {coq_ref(o[1])} {coq_ref(o[2])})"
    raise KeyError(o[0])


def coq_ext(ext):
    # fun i => nth i [..] 0
    return f"(fun i => nth i {vlib.zlist(ext)} 0)"


def shift_amounts_small(case):
    w = case["dtype"]
    for o in case["offsets"]:
        a = (o[1] if o[0] == "int" else case["ext"][o[1]]) % 2 ** w
        if a > 256:
            return False
    return True


def l1_prepare(ctx):
    rng = ctx.rng
    n = ctx.n(250, 3000)
    cases, meta, vcases, vmeta, dis = [], [], [], [], []
    for _ in range(n):
        c = gen_case(rng)
        ops, err = run_impl(c)
        nt = len(c["values"]) >= 2
        ctx.count({"part": PART, "case": c, "n_ops": None if ops is None else len(ops)}, nt,
                  f"pack{c['values']}{c['offsets']}{c['dtype']}", "pack_bitlist")
        vs = coqlist(coq_operand(i) for i in c["values"])
        os_ = coqlist(coq_operand(i) for i in c["offsets"])
        if ops is None:
            out = "None"
        else:
            try:
                out = "(Some " + coqlist(coq_op(o) for o in ops) + ")"
            except KeyError as e:
                dis.append({"name": "L1:pack-unknown-op", "case": c, "op": str(e)})
                continue
            bad_ty = [o for o in ops if o[0] == "const" and o[2] != c["dtype"]]
            if bad_ty:
                dis.append({"name": "L1:pack-const-type", "case": c, "ops": bad_ty})
        cases.append(f"({vs}, {os_}, {zlit(c['dtype'])}, {out})")
        meta.append(c)
        if ops and shift_amounts_small(c):
            v = interp(ops, c["dtype"], c["ext"])
            vcases.append(f"({vs}, {os_}, {zlit(c['dtype'])}, {vlib.zlist(c['ext'])}, {zlit(v)})")
            vmeta.append(c)
    text = ["From Snax Require Import Base.Prelude Model.C19Pack.",
            f"Definition cases_ops := {coqlist(cases)}.",
            "Eval vm_compute in failing (fun c : list pk_operand * list pk_operand * Z * option (list pk_op) => "
            "match c with (vs, os, w, out) => pk_out_eqb (pack_bitlist vs os w) out end) cases_ops.",
            f"Definition cases_val := {coqlist(vcases)}.",
            "Eval vm_compute in failing (fun c : list pk_operand * list pk_operand * Z * list Z * Z => "
            "match c with (vs, os, w, ext, v) => match pack_bitlist vs os w with Some ops => "
            "(pack_result w (fun i => nth i ext 0) ops =? v) && (pack_spec w (fun i => nth i ext 0) vs os =? v) "
            "| None => false end end) cases_val."]
    def finish(results):
        return _l1_finish(results, dis, meta, vmeta)

    return ["\n".join(text) + "\n"], finish


def _l1_finish(results, dis, meta, vmeta):
    ok, out = results[0]
    lists = vlib.parse_all_eval_lists(out)
    if not ok or len(lists) != 2:
        return dis + [{"name": "L1:pack-cases-file", "detail": out[-1500:]}]
    for i in lists[0]:
        dis.append({"name": "L1:pack-ops", "case": meta[i], "impl_ops": run_impl(meta[i])[0]})
    for i in lists[1]:
        dis.append({"name": "L1:pack-value", "case": vmeta[i]})
    return dis


def check_case(c):
    """The property on the implementation: the emitted DAG evaluates to or-of-shifted-fields."""
    ops, err = run_impl(c)
    wellformed = len(c["values"]) == len(c["offsets"]) and all(
        it[0] != "int" or -(2 ** (c["dtype"] - 1)) <= it[1] < 2 ** c["dtype"] for it in c["values"] + c["offsets"])
    if ops is None:
        if wellformed:
            return [{"what": "pack_raises", "detail": err}]
        return []
    if not wellformed:
        return [{"what": "pack_accepts_malformed", "detail": str(ops)[:300]}]
    if not ops:
        return [] if not c["values"] else [{"what": "pack_empty", "detail": ""}]
    try:
        got = interp(ops, c["dtype"], c["ext"])
    except ValueError as e:
        return [{"what": "pack_uninterpretable", "detail": str(e)}]
    want = spec(c)
    if got != want:
        return [{"what": "pack_value", "detail": {"got": got, "want": want, "ops": [list(map(str, o)) for o in ops]}}]
    return []


def l2(ctx, deep):
    rng = ctx.rng
    n = ctx.n(400, 6000) * (4 if deep else 1)
    fails = []
    for k in range(n):
        c = gen_case(rng, malformed_ok=(k % 5 == 0))
        if deep and k % 2 == 0:
            # overlapping fields / all-ones values make or != xor != add visible
            for it in c["values"]:
                if it[0] == "int":
                    it[1] = rng.choice([-1, 255, 3, 2 ** c["dtype"] - 1, 1])
        ctx.count({"part": PART, "L2": c}, len(c["values"]) >= 2, f"l2pack{c}", "L2:pack")
        for f in check_case(c):
            fails.append({"part": PART, "what": f["what"], "input": c, "detail": f["detail"], "klass": None})
            if len(fails) > 20:
                return fails
    return fails


def replay(ctx, f):
    res = check_case(f["input"])
    print("pack_bitlist input:", f["input"])
    print("emitted ops:", run_impl(f["input"])[0])
    for r in res:
        print("FAIL", r)
    return res
