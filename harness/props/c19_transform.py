"""C19 (d) AffineTransform (snaxc/ir/dart/affine_transform.py) and AccessPattern.canonicalize / inner_dims
(snaxc/ir/dart/access_pattern.py).
L1 : hand model Model/C19Transform.v vs the real classes (matrices, vectors, affine-map trees: exact)
L2 : on the real classes: map -> matrix -> map evaluates identically on boxes and random points; compose is
     function composition; batch eval = map of eval; canonicalize / inner_dims keep the evaluation on the box.
"""
from __future__ import annotations

import itertools

import vlib
from vlib import coqlist, zlist, zlit

from props import c19_affine as af

PART = "transform"


def _mods():
    import numpy as np
    from xdsl.ir.affine import AffineMap
    from snaxc.ir.dart.access_pattern import AccessPattern, SchedulePattern, TemplatePattern
    from snaxc.ir.dart.affine_transform import AffineTransform
    return np, AffineMap, AffineTransform, AccessPattern, SchedulePattern, TemplatePattern


# ------------------------------------------------------------------ generators
def gen_linear(rng, depth, ndims):
    """pure affine tree (only + and * by constant expressions), raw constructors"""
    if depth <= 0 or rng.random() < 0.3:
        if ndims and rng.random() < 0.65:
            return ("d", rng.randrange(ndims))
        return ("c", rng.choice([0, 1, 2, 3, -1, 4, 8, -5]))
    if rng.random() < 0.6:
        return ("Add", gen_linear(rng, depth - 1, ndims), gen_linear(rng, depth - 1, ndims))
    c = ("c", rng.choice([0, 1, 2, 3, -1, 4, 16])) if rng.random() < 0.8 else ("Add", ("c", 2), ("Mul", ("c", 3), ("c", -1)))
    e = gen_linear(rng, depth - 1, ndims)
    return ("Mul", e, c) if rng.random() < 0.6 else ("Mul", c, e)


def gen_map(rng, linear_only=False):
    n = rng.choice([0, 1, 2, 2, 3, 3, 4])
    r = rng.choice([0, 1, 1, 2, 3])
    res = []
    for _ in range(r):
        k = rng.random()
        if linear_only or k < 0.75:
            res.append(gen_linear(rng, rng.choice([0, 1, 2, 3]), n))
        elif k < 0.9:
            res.append(af.gen_expr(rng, rng.choice([1, 2, 3]), raw=True, ndims=max(n, 1) + (1 if rng.random() < 0.2 else 0), nsyms=1))
        else:
            res.append(("Mul", ("d", 0), ("d", max(n - 1, 0))) if n else ("c", 1))
    return n, res


def gen_matrix(rng, r, n):
    return [[rng.choice([0, 0, 1, 1, -1, 2, 3, 8, -4, 16]) for _ in range(n)] for _ in range(r)]


def mk_transform(A, b, n):
    np, _, AT, *_ = _mods()
    return AT(np.array(A, dtype=np.int_).reshape(len(A), n), np.array(b, dtype=np.int_))


def coq_mat(A):
    return coqlist(zlist(r) for r in A)


def coq_at(A, b, n):
    return f"(AT {coq_mat(A)} {zlist(b)} {n}%nat)"


def coq_map(n, res):
    return f"(AMap {zlit(n)} 0%Z {coqlist(af.coq_expr(t) for t in res)})"


def coq_bounds(bs):
    return coqlist(vlib.optz(b) for b in bs)


def at_out(t):
    return coq_at([[int(v) for v in row] for row in t.A.tolist()], [int(v) for v in t.b.tolist()], t.A.shape[1])


def l1_prepare(ctx):
    rng = ctx.rng
    np, AffineMap, AT, AccessPattern, SchedulePattern, TemplatePattern = _mods()
    n_cases = ctx.n(200, 2500)
    frm, tom, cmp_, evl, canon, innerd, bat = [], [], [], [], [], [], []
    m_frm, m_tom, m_cmp, m_evl, m_can, m_inn, m_bat = [], [], [], [], [], [], []
    for i in range(n_cases):
        # from_affine_map
        n, res = gen_map(rng)
        m = AffineMap(n, 0, tuple(af.to_xdsl(t) for t in res))
        try:
            out = "(Some " + at_out(AT.from_affine_map(m)) + ")"
        except (ValueError, IndexError, ZeroDivisionError):
            out = "None"
        frm.append(f"({coq_map(n, res)}, {out})")
        m_frm.append((n, res))
        ctx.count({"part": PART, "from_affine_map": str(m), "out": out[:80]}, n >= 2 and len(res) >= 1, f"fam{n}{res}", "from_affine_map")
        # to_affine_map
        r, n2 = rng.choice([0, 1, 2, 3]), rng.choice([0, 1, 2, 3, 4])
        A, b = gen_matrix(rng, r, n2), [rng.choice([0, 0, 1, -3, 5, 64]) for _ in range(r)]
        t = mk_transform(A, b, n2)
        mm = t.to_affine_map()
        tom.append(f"({coq_at(A, b, n2)}, {coq_map(mm.num_dims, [af.from_xdsl(e) for e in mm.results])})")
        m_tom.append((A, b, n2))
        ctx.count({"part": PART, "to_affine_map": [A, b], "out": str(mm)}, r >= 1 and n2 >= 2, f"tam{A}{b}{n2}", "to_affine_map")
        # compose + eval
        r1 = rng.choice([0, 1, 2, 3])
        k = r if rng.random() < 0.85 else r + 1          # columns of the outer transform; sometimes mismatched
        A1, b1 = gen_matrix(rng, r1, k), [rng.choice([0, 1, -2, 7]) for _ in range(r1)]
        s = mk_transform(A1, b1, k)
        try:
            out = "(Some " + at_out(s.compose(t)) + ")"
        except ValueError:
            out = "None"
        cmp_.append(f"({coq_at(A1, b1, k)}, {coq_at(A, b, n2)}, {out})")
        m_cmp.append((A1, b1, A, b))
        ctx.count({"part": PART, "compose": [A1, b1, A, b]}, r1 >= 1 and r >= 1 and n2 >= 1, f"cmp{A1}{b1}{A}{b}", "compose")
        x = [rng.randrange(-9, 30) for _ in range(n2 if rng.random() < 0.9 else n2 + 1)]
        try:
            out = "(Some " + zlist(int(v) for v in t.eval(np.array(x, dtype=np.int_))) + ")"
        except ValueError:
            out = "None"
        evl.append(f"({coq_at(A, b, n2)}, {zlist(x)}, {out})")
        m_evl.append((A, b, x))
        ctx.count({"part": PART, "eval": [A, b, x]}, r >= 1 and n2 >= 2, f"evl{A}{b}{x}", "eval")
        # eval on a batch (2-D array) of vectors; an empty batch only with the right width (a list of
        # vectors does not carry the width of an empty array)
        wid = n2 if rng.random() < 0.9 else n2 + 1
        xs = [[rng.randrange(-9, 30) for _ in range(wid)] for _ in range(rng.choice([1, 1, 2, 3, 5] if wid != n2 else [0, 1, 2, 3, 5]))]
        try:
            out = "(Some " + coqlist(zlist(int(v) for v in row) for row in t.eval(np.array(xs, dtype=np.int_).reshape(len(xs), wid)).tolist()) + ")"
        except ValueError:
            out = "None"
        bat.append(f"({coq_at(A, b, n2)}, {coqlist(zlist(x) for x in xs)}, {out})")
        m_bat.append((A, b, xs))
        ctx.count({"part": PART, "eval_batch": [A, b, xs]}, r >= 1 and n2 >= 2 and len(xs) >= 2, f"bat{A}{b}{xs}", "eval_batch")
        # access patterns
        bounds = [rng.choice([None, 1, 1, 2, 3, 4, 8, 0]) for _ in range(n2)]
        p = AccessPattern(bounds, t)
        c = p.canonicalize()
        canon.append(f"(AP {coq_bounds(bounds)} {coq_at(A, b, n2)}, AP {coq_bounds(c.bounds)} {at_out(c.pattern)})")
        m_can.append((bounds, A, b))
        ctx.count({"part": PART, "AccessPattern.canonicalize": [bounds, A, b]}, n2 >= 2, f"apc{bounds}{A}{b}", "AccessPattern.canonicalize")
        dim = rng.choice([0, 1, 1, 2, 3, 5, -1])
        try:
            q = p.inner_dims(dim)
            out = f"(Some (AP {coq_bounds(q.bounds)} {at_out(q.pattern)}))"
        except ValueError:
            out = "None"
        innerd.append(f"(AP {coq_bounds(bounds)} {coq_at(A, b, n2)}, {zlit(dim)}, {out})")
        m_inn.append((bounds, A, b, dim))
    text = ["From Snax Require Import Base.Prelude Model.XdslAffine Model.C19Transform.",
            "Definition opt_ap_eqb (a b : option apattern) := match a, b with Some x, Some y => apattern_eqb x y | None, None => true | _, _ => false end.",
            f"Definition cases_from := {coqlist(frm)}.",
            "Eval vm_compute in failing (fun c : amap * option atrans => opt_atrans_eqb (from_affine_map (fst c)) (snd c)) cases_from.",
            f"Definition cases_to := {coqlist(tom)}.",
            "Eval vm_compute in failing (fun c : atrans * amap => amap_eqb (to_affine_map (fst c)) (snd c)) cases_to.",
            f"Definition cases_compose := {coqlist(cmp_)}.",
            "Eval vm_compute in failing (fun c : atrans * atrans * option atrans => match c with (s, o, r) => opt_atrans_eqb (at_compose s o) r end) cases_compose.",
            f"Definition cases_eval := {coqlist(evl)}.",
            "Eval vm_compute in failing (fun c : atrans * vec * option vec => match c with (t, x, r) => optvec_eqb (at_eval t x) r end) cases_eval.",
            f"Definition cases_canon := {coqlist(canon)}.",
            "Eval vm_compute in failing (fun c : apattern * apattern => apattern_eqb (ap_canonicalize (fst c)) (snd c)) cases_canon.",
            f"Definition cases_inner := {coqlist(innerd)}.",
            "Eval vm_compute in failing (fun c : apattern * Z * option apattern => match c with (p, d, r) => opt_ap_eqb (ap_inner_dims p d) r end) cases_inner.",
            "Definition optvecs_eqb (a b : option (list vec)) := match a, b with Some x, Some y => list_eqb vec_eqb x y | None, None => true | _, _ => false end.",
            f"Definition cases_batch := {coqlist(bat)}.",
            "Eval vm_compute in failing (fun c : atrans * list vec * option (list vec) => match c with (t, xs, r) => optvecs_eqb (at_eval_batch t xs) r end) cases_batch."]
    names = [("from_affine_map", m_frm), ("to_affine_map", m_tom), ("compose", m_cmp), ("eval", m_evl),
             ("AccessPattern.canonicalize", m_can), ("AccessPattern.inner_dims", m_inn), ("eval (batch)", m_bat)]

    def finish(results):
        ok, out = results[0]
        lists = vlib.parse_all_eval_lists(out)
        if not ok or len(lists) != len(names):
            return [{"name": "L1:transform-cases-file", "detail": out[-1500:]}]
        dis = []
        for (nm, meta), bad in zip(names, lists):
            for i in bad:
                dis.append({"name": "L1:" + nm, "case": meta[i]})
        return dis

    return ["\n".join(text) + "\n"], finish


# ------------------------------------------------------------------ L2
def check_roundtrip(n, res, rng):
    np, AffineMap, AT, *_ = _mods()
    m = AffineMap(n, 0, tuple(af.to_xdsl(t) for t in res))
    t = AT.from_affine_map(m)
    m2 = t.to_affine_map()
    pts = list(itertools.product(range(-1, 3), repeat=n))[:200] + [tuple(rng.randrange(-500, 500) for _ in range(n)) for _ in range(5)]
    for x in pts:
        v0 = tuple(m.eval(list(x), []))
        v1 = tuple(int(v) for v in t.eval(np.array(x, dtype=np.int_))) if True else None
        v2 = tuple(m2.eval(list(x), []))
        if not (v0 == v1 == v2):
            return [{"what": "AffineTransform from/to_affine_map round trip changes the value",
                     "detail": {"map": str(m), "A": t.A.tolist(), "b": t.b.tolist(), "back": str(m2), "x": list(x),
                                "map_value": v0, "matrix_value": v1, "back_value": v2}}]
    if AT.from_affine_map(m2) != t:
        return [{"what": "from_affine_map(to_affine_map(t)) != t", "detail": {"map": str(m), "back": str(m2)}}]
    if pts:
        batch = t.eval(np.array(pts, dtype=np.int_).reshape(len(pts), n))
        single = [t.eval(np.array(x, dtype=np.int_)).tolist() for x in pts]
        if batch.tolist() != single:
            return [{"what": "AffineTransform.eval batch != map of eval", "detail": {"map": str(m)}}]
    return []


def check_compose(A1, b1, A, b, n, rng):
    np, *_ = _mods()
    s, o = mk_transform(A1, b1, len(A)), mk_transform(A, b, n)
    c = s.compose(o)
    for _ in range(6):
        x = np.array([rng.randrange(-50, 50) for _ in range(n)], dtype=np.int_)
        if c.eval(x).tolist() != s.eval(o.eval(x)).tolist():
            return [{"what": "compose is not function composition", "detail": {"x": x.tolist(), "composed": c.eval(x).tolist(), "sequential": s.eval(o.eval(x)).tolist()}}]
    return []


def check_access(bounds, A, b, rng):
    np, AffineMap, AT, AccessPattern, *_ = _mods()
    n = len(bounds)
    p = AccessPattern(bounds, mk_transform(A, b, n))
    c = p.canonicalize()
    keep = [bd is None or bd > 1 for bd in bounds]
    if list(c.bounds) != [bd for bd, k in zip(bounds, keep) if k]:
        return [{"what": "AccessPattern.canonicalize keeps the wrong dimensions",
                 "detail": {"canonical_bounds": list(c.bounds), "expected": [bd for bd, k in zip(bounds, keep) if k]}}]
    box = itertools.product(*[range(bd if bd is not None else 3) for bd in bounds])
    for x in itertools.islice(box, 300):
        y = [v for v, k in zip(x, keep) if k]
        if p.pattern.eval(np.array(x, dtype=np.int_)).tolist() != c.pattern.eval(np.array(y, dtype=np.int_)).tolist():
            return [{"what": "AccessPattern.canonicalize changes the accessed element", "detail": {"x": list(x), "canonical_bounds": list(c.bounds)}}]
    if c.canonicalize().bounds != c.bounds or c.canonicalize().pattern != c.pattern:
        return [{"what": "AccessPattern.canonicalize not idempotent", "detail": {"canonical_bounds": list(c.bounds)}}]
    for dim in range(1, n + 1):
        q = p.inner_dims(dim)
        x = [rng.randrange(0, 5) for _ in range(dim)]
        full = [0] * (n - dim) + x
        if q.pattern.eval(np.array(x, dtype=np.int_)).tolist() != p.pattern.eval(np.array(full, dtype=np.int_)).tolist() \
                or list(q.bounds) != list(bounds[n - dim:]):
            return [{"what": "AccessPattern.inner_dims changes the accessed element", "detail": {"dim": dim, "x": x}}]
    return []


def _guard(kind, fn):
    """a crash of the implementation on a valid input is a failure with that input, not a harness crash"""
    try:
        return fn()
    except Exception as e:
        return [{"what": f"{kind} raises on a valid input", "detail": repr(e)[:300]}]


def l2(ctx, deep):
    rng = ctx.rng
    n_cases = ctx.n(250, 3000) * (3 if deep else 1)
    fails = []
    for i in range(n_cases):
        n, res = gen_map(rng, linear_only=True)
        inp = {"kind": "roundtrip", "n": n, "results": res}
        ctx.count({"part": PART, "L2": inp}, n >= 2 and len(res) >= 1, f"l2rt{n}{res}", "L2:roundtrip")
        for f in _guard("from_affine_map/to_affine_map", lambda: check_roundtrip(n, res, rng)):
            fails.append({"part": PART, "what": f["what"], "input": inp, "detail": f["detail"], "klass": None})
        r, n2, r1 = rng.choice([1, 2, 3]), rng.choice([1, 2, 3, 4]), rng.choice([1, 2, 3])
        A, b = gen_matrix(rng, r, n2), [rng.choice([0, 1, -3, 5]) for _ in range(r)]
        A1, b1 = gen_matrix(rng, r1, r), [rng.choice([0, 1, -2, 7]) for _ in range(r1)]
        inp = {"kind": "compose", "A1": A1, "b1": b1, "A": A, "b": b, "n": n2}
        ctx.count({"part": PART, "L2": inp}, True, f"l2cmp{A1}{b1}{A}{b}", "L2:compose")
        for f in _guard("compose/eval", lambda: check_compose(A1, b1, A, b, n2, rng)):
            fails.append({"part": PART, "what": f["what"], "input": inp, "detail": f["detail"], "klass": None})
        bounds = [rng.choice([None, 1, 1, 2, 3, 4, 1]) for _ in range(n2)]
        inp = {"kind": "access", "bounds": bounds, "A": A, "b": b}
        ctx.count({"part": PART, "L2": inp}, n2 >= 2, f"l2ap{bounds}{A}{b}", "L2:AccessPattern")
        for f in _guard("AccessPattern.canonicalize/inner_dims", lambda: check_access(bounds, A, b, rng)):
            fails.append({"part": PART, "what": f["what"], "input": inp, "detail": f["detail"], "klass": None})
        if len(fails) > 20:
            break
    return fails


def replay(ctx, f):
    import random
    rng = random.Random(0)
    i = f["input"]
    if i["kind"] == "roundtrip":
        res = check_roundtrip(i["n"], [af._tuplify(t) for t in i["results"]], rng)
    elif i["kind"] == "compose":
        res = check_compose(i["A1"], i["b1"], i["A"], i["b"], i["n"], rng)
    else:
        res = check_access(i["bounds"], i["A"], i["b"], rng)
    print("input:", i)
    for r in res:
        print("FAIL", r)
    return res
