"""C08 — generated configuration values line up with field names.

(H) hand model coq/Model/C08StreamerCfg.v (+ C08Accels.v).
L1: field-name lists and value lists of the real classes (objects constructed directly) against the
    model for fresh random configurations / operations, compared inside Coq by vm_compute.
L2: marker experiment on the implementation only: a snax_stream.streaming_region with pairwise
    distinct markers in every bound/stride position is lowered by the real convert_to_acc_ops (and the
    real convert-linalg-to-accfg pass for the registered accelerators: snax_alu, snax_gemmx, and snax_xdma in
    a clone of the snax-opt context with snax_xdma registered); the constant feeding each
    *named* field of the emitted accfg.setup is read back and compared with what the NAME says
    (independent name parser below, no model involved).  Also: snax_phs accelerators built as phsc does
    (merged PE + TemplateSpec), snax_alu's legacy linalg.generic route, snax_hwpe_mult, and the verifier's
    rejection of patterns with more dims than the streamer (what makes the generators' truncation unreachable).
"""
from __future__ import annotations

import re
import string

import vlib
from vlib import coqlist, zlist, zlit

PROPERTY = "C08"
MODEL_TARGETS = ["Model/C08StreamerCfg.vo", "Model/C08Accels.vo", "Model/C08Check.vo"]
RULE = ("streamer configurations: 1-5 (rarely 27) streamers, 1-6 temporal dims with n/i/r flags, 1-2 spatial dims, "
        "random ordered subset of the 4 options and 7 extensions; operations: stride patterns with pairwise distinct "
        "marker integers, random zero strides, shorter/longer dimension lists, zero-pointer operands; gemmx bodies "
        "mac/qmac x i32/i8/rescale, gemm (mac+add[+rescale]), rescale-only, unsupported; xDMA bodies none/test.op/add/"
        "rescale up/down; snax_phs: PE merged from 1-3 of 6 kernels x 4 TemplateSpecs; a case is "
        "non-trivial when the configuration has >= 2 streamers or >= 1 option; distinct = distinct (cfg, op)")
TRUSTED_BASE = [
    "Coq 8.16.1 kernel + vm_compute (no native_compute)",
    "hand model coq/Model/C08StreamerCfg.v of SNAXStreamer.get_streamer_setup_fields/_generate_streamer_setup_vals "
    "(snax.py) and its per-accelerator users, tied by L1 (this harness)",
    "harness/props/c08.py: generators, Coq-literal printer, reading constants back from arith.constant ops, the "
    "independent field-name parser of L2; harness/xdsl_compat.py; xDSL 0.70 (IR construction, pattern rewriter)",
]
ASSUMPTIONS = [
    "SSA values are abstracted to `operand k` / integer constant; i32 wrap-around of constants is not modelled",
    "hardware meaning of each register name is taken from the name (and the SNAX streamer documentation)",
]

FLAGS = {"n": "FNormal", "i": "FIrrelevant", "r": "FReuse"}
EXT_KINDS = ["EMaxPool", "EMemSet", "ETranspose", "ERescaleDown", "ERescaleUp", "EAdd", "EAddLong"]
OPT_KINDS = ["OAddrRemap", "OChanMask", "OByteMask", "OBroadcast"]


# ---------------------------------------------------------------- implementation access
def _impl():
    from snaxc.accelerators.streamers import streamers as S
    from snaxc.accelerators.streamers import extensions as X
    return S, X


def opt_classes():
    S, X = _impl()
    return {
        "OAddrRemap": S.HasAddressRemap, "OChanMask": S.HasChannelMask, "OByteMask": S.HasByteMask,
        "OBroadcast": S.HasBroadcast,
        "EMaxPool": X.MaxPoolExtension, "EMemSet": X.MemSetExtension, "ETranspose": X.TransposeExtension,
        "ERescaleDown": X.RescaleDownExtension, "ERescaleUp": X.RescaleUpExtension,
        "EAdd": X.AddExtension, "EAddLong": X.AddLongExtension,
    }


def mk_cfg(spec, xdma=False):
    """spec = [(flags 'nri..', [spatial], [opt names])] -> StreamerConfiguration"""
    S, _ = _impl()
    oc = opt_classes()
    streamers = [S.Streamer(S.StreamerType.Reader, list(fl), list(sp), [oc[o]() for o in opts]) for (fl, sp, opts) in spec]
    return S.StreamerConfiguration(streamers, S.StreamerSystemType.DmaExt if xdma else S.StreamerSystemType.Regular)


_BARE = None


def bare_streamer_class():
    """A SNAXStreamer with nothing else (get_template is abstract and unused here)."""
    global _BARE
    if _BARE is None:
        from snaxc.accelerators.snax import SNAXStreamer

        class Bare(SNAXStreamer):
            def get_template(self, op):  # pragma: no cover
                raise NotImplementedError

        _BARE = Bare
    return _BARE


def mk_region(opspec, accelerator="acc", body_ops=None, arg_types=None):
    """opspec = {"pats": [(ub, ts, ss)], "operands": ['p' | 'z' | 'c']}  ('p' opaque pointer, 'z' constant 0 index,
    'c' constant 7 index).  Returns (streaming_region_op, pre_ops)."""
    from xdsl.dialects import arith, builtin, test
    from xdsl.dialects.builtin import IndexType
    from xdsl.ir import Block, Region
    from snaxc.dialects import dart
    from snaxc.dialects.snax_stream import StreamingRegionOp, StridePattern
    pre, vals = [], []
    outer = Block(arg_types=[IndexType()] * len(opspec["operands"]))
    for k, kind in enumerate(opspec["operands"]):
        if kind == "b":      # pointer is a block argument (not an OpResult)
            vals.append(outer.args[k])
            continue
        if kind == "p":
            o = test.TestOp(result_types=[IndexType()])
            vals.append(o.res[0])
        else:
            o = arith.ConstantOp.from_int_and_width(0 if kind == "z" else 7, IndexType())
            vals.append(o.result)
        pre.append(o)
    pats = [StridePattern(list(ub), list(ts), list(ss)) for (ub, ts, ss) in opspec["pats"]]
    if arg_types is None:
        arg_types = [dart.StreamType(builtin.i64)] * len(vals)
    block = Block(arg_types=arg_types)
    if body_ops is not None:
        block.add_ops(body_ops(block))
    n_in = max(0, len(vals) - 1)
    op = StreamingRegionOp(vals[:n_in], vals[n_in:], pats, accelerator, Region(block))
    op._verif_outer = outer      # keep the block arguments alive
    return op, pre


def read_vals(op, vals):
    """[(ops, ssa)] -> [('o', k) | ('c', int)]"""
    from xdsl.dialects import arith
    out = []
    operands = list(op.operands)
    for _, v in vals:
        out.append(read_val(operands, v))
    return out


def read_val(operands, v):
    from xdsl.dialects import arith
    from xdsl.dialects.builtin import IntegerAttr
    for k, o in enumerate(operands):
        if o is v:
            return ("o", k)
    owner = v.owner
    if isinstance(owner, arith.ConstantOp) and isinstance(owner.value, IntegerAttr):
        return ("c", owner.value.value.data)
    return ("?", str(owner.name if hasattr(owner, "name") else owner))


# ---------------------------------------------------------------- text-built regions (bodies with kernels)
_XCTX = None


def xctx():
    """AccContext with every dialect / accelerator registered (as snax-opt builds it)."""
    global _XCTX
    if _XCTX is None:
        from snaxc.tools.snax_opt_main import SNAXOptMain
        _XCTX = SNAXOptMain(args=[str(vlib.VERIF / "notes" / "probe_c08_gemmx_rescale_only.mlir")]).ctx
    return _XCTX


_XDMA_CTX = None


def xdma_ctx():
    """The snax-opt context plus `snax_xdma` (snax-opt registers only alu/gemmx/hwpe/gemmini; snaxc registers
    snax_xdma from a hardware configuration file).  The registered factory is the class itself, i.e. the default
    xDMA streamer configuration, exactly what `ctx.get_acc("snax_xdma")` returns inside the pass."""
    global _XDMA_CTX
    if _XDMA_CTX is None:
        from snaxc.accelerators.snax_xdma import SNAXXDMAAccelerator
        c = xctx().clone()
        if c.get_optional_accelerator("snax_xdma") is None:
            c.register_accelerator("snax_xdma", SNAXXDMAAccelerator)
        _XDMA_CTX = c
    return _XDMA_CTX


def _ilist(xs):
    return "[" + ", ".join(str(x) for x in xs) + "]"


def region_text(opspec, accelerator, body):
    """body = {"args": [stream element types], "pre": [lines before the region], "ops": [lines inside]}"""
    lines = list(body.get("pre", []))
    names = []
    fargs = []
    for k, kind in enumerate(opspec["operands"]):
        if kind == "b":
            fargs.append(f"%p{k} : index")
        elif kind == "p":
            lines.append(f'%p{k} = "test.op"() : () -> index')
        else:
            lines.append(f"%p{k} = arith.constant {0 if kind == 'z' else 7} : index")
        names.append(f"%p{k}")
    pats = ", ".join(f"#snax_stream.stride_pattern<ub = {_ilist(ub)}, ts = {_ilist(ts)}, ss = {_ilist(ss)}>"
                     for (ub, ts, ss) in opspec["pats"])
    n = len(names)
    n_in = max(0, n - 1)
    args = ", ".join(f"%s{i} : !dart.stream<{t}>" for i, t in enumerate(body["args"]))
    lines.append(f'"snax_stream.streaming_region"({", ".join(names)}) <{{stride_patterns = [{pats}], '
                 f'accelerator = "{accelerator}", operandSegmentSizes = array<i32: {n_in}, {n - n_in}>}}> ({{')
    lines.append(f"^bb0({args}):")
    lines.extend(body["ops"])
    lines.append("}) : (" + ", ".join(["index"] * n) + ") -> ()")
    return f"func.func @f({', '.join(fargs)}) {{\n" + "\n".join(lines) + "\nfunc.return\n}\n"


def parse_region(text, the_ctx=None):
    from xdsl.parser import Parser
    from snaxc.dialects.snax_stream import StreamingRegionOp
    mod = Parser(the_ctx or xctx(), text).parse_module()
    for o in mod.walk():
        if isinstance(o, StreamingRegionOp):
            return mod, o
    raise RuntimeError("no streaming region")


def _generic(res, ins, in_types, bb_args, kernel_line, out_elem, yielded):
    """one dart.generic with a single kernel op"""
    return [
        f'{res} = "dart.generic"({", ".join(ins)}) <{{library_call = "x"}}> ({{',
        f"^bb1({bb_args}):",
        f"  {kernel_line}",
        f"  dart.yield {yielded} : {out_elem}",
        "}) : (" + ", ".join(in_types) + f") -> !dart.stream<{out_elem}>",
    ]


def _rescale_attrs(r):
    return (f"{{input_zp = {r['zpin']} : i32, output_zp = {r['zpout']} : i32, multiplier = array<i32: "
            f"{', '.join(map(str, r['mult']))}>, shift = array<i32: {', '.join(map(str, r['shift']))}>, "
            f"max_int = {r['max']} : i32, min_int = {r['min']} : i32, double_round = {'true' if r['dr'] else 'false'}}}")


def gen_rescale(rng, n=None, lens=None):
    L = rng.choice(lens) if lens else 1
    return {"zpin": rng.choice([1, 3, -7, 127]), "zpout": rng.choice([0, -4, 5, -128]),
            "mult": [rng.randrange(1000, 2 ** 30) for _ in range(L)], "shift": [rng.randrange(10, 48) for _ in range(L)],
            "max": rng.choice([127, 100]), "min": rng.choice([-128, -100]), "dr": rng.choice([0, 1])}


def xdma_body(kind, nargs, resc=None):
    """Bodies the xDMA generator distinguishes."""
    t = {"none": "i32", "testop": "i32", "add_i32": "i32", "add_i64": "i64", "rescale_down": "i32", "rescale_up": "i8"}[kind]
    args = [t] * nargs
    if kind == "none":
        return {"args": args, "ops": []}
    if kind == "testop":
        return {"args": args, "ops": [f'%r = "test.op"(%s0) : (!dart.stream<{t}>) -> !dart.stream<{t}>']}
    if kind in ("add_i32", "add_i64"):
        ops = _generic("%g", ["%s0", "%s0"], [f"!dart.stream<{t}>"] * 2, f"%a : {t}, %b : {t}, %c : {t}",
                       f"%k = kernel.add %a, %b : {t}, {t} -> {t}", t, "%k")
    else:
        out = "i8" if kind == "rescale_down" else "i32"
        ops = _generic("%g", ["%s0"], [f"!dart.stream<{t}>"], f"%a : {t}, %c : {out}",
                       f'%k = "kernel.rescale"(%a) {_rescale_attrs(resc)} : ({t}) -> {out}', out, "%k")
        t = out
    return {"args": args, "ops": ops + [f"dart.yield %g : !dart.stream<{t}>"]}


def gemmx_body(kind, nargs, zp=(0, 0), resc=None):
    """kind in mac_i32 qmac_i32 mac_i8 qmac_i8 mac_resc qmac_resc rescale_only other and the gemm variants
    mac_add_i32 qmac_add_i32 mac_add_resc qmac_add_resc (a kernel.add generic between the mac and the rescale)"""
    args = ["i8", "i8"] + ["i32"] * (nargs - 2)
    pre = [f"%zpa = arith.constant {zp[0]} : i32", f"%zpb = arith.constant {zp[1]} : i32"]
    if kind == "rescale_only":
        args = ["i32"] * nargs
        ops = _generic("%g", ["%s0"], ["!dart.stream<i32>"], "%a : i32, %c : i8",
                       f'%k = "kernel.rescale"(%a) {_rescale_attrs(resc)} : (i32) -> i8', "i8", "%k")
        return {"args": args, "pre": pre, "ops": ops + ["dart.yield %g : !dart.stream<i8>"]}
    if kind == "other":
        args = ["i32"] * nargs
        ops = _generic("%g", ["%s0", "%s0"], ["!dart.stream<i32>"] * 2, "%a : i32, %b : i32, %c : i32",
                       "%k = kernel.add %a, %b : i32, i32 -> i32", "i32", "%k")
        return {"args": args, "pre": pre, "ops": ops + ["dart.yield %g : !dart.stream<i32>"]}
    if kind.startswith("qmac"):
        ops = _generic("%g", ["%s0", "%s1", "%zpa", "%zpb"], ["!dart.stream<i8>", "!dart.stream<i8>", "i32", "i32"],
                       "%a : i8, %b : i8, %za : i32, %zb : i32, %c : i32",
                       "%k = kernel.qmac %a, %b zp_lhs : %za zp_rhs : %zb : i8, i8, i32, i32 -> i32", "i32", "%k")
    else:
        ops = _generic("%g", ["%s0", "%s1"], ["!dart.stream<i8>", "!dart.stream<i8>"], "%a : i8, %b : i8, %c : i32",
                       "%k = kernel.mac %a, %b : i8, i8 -> i32", "i32", "%k")
    cur = "%g"
    if "_add_" in kind:        # gemm: a second generic adds the C stream (operand 2) before the optional rescale
        ops += _generic("%ga", ["%g", "%s2"], ["!dart.stream<i32>"] * 2, "%a1 : i32, %b1 : i32, %c1 : i32",
                        "%k1 = kernel.add %a1, %b1 : i32, i32 -> i32", "i32", "%k1")
        cur = "%ga"
    if kind.endswith("_i32"):
        return {"args": args, "pre": pre, "ops": ops + [f"dart.yield {cur} : !dart.stream<i32>"]}
    if kind.endswith("_i8"):   # i8 output without a rescale kernel: defaults are used
        ops += [f'%t = "test.op"({cur}) : (!dart.stream<i32>) -> !dart.stream<i8>', "dart.yield %t : !dart.stream<i8>"]
        return {"args": args, "pre": pre, "ops": ops}
    ops += _generic("%h", [cur], ["!dart.stream<i32>"], "%a2 : i32, %c2 : i8",
                    f'%k2 = "kernel.rescale"(%a2) {_rescale_attrs(resc)} : (i32) -> i8', "i8", "%k2")
    return {"args": args, "pre": pre, "ops": ops + ["dart.yield %h : !dart.stream<i8>"]}


def eval_ssa(operands, v, depth=0):
    """operand k / integer value of a constant expression built from arith.constant, andi, shli, ori."""
    from xdsl.dialects import arith
    from xdsl.dialects.builtin import IntegerAttr
    for k, o in enumerate(operands):
        if o is v:
            return ("o", k)
    ow = v.owner
    if isinstance(ow, arith.ConstantOp) and isinstance(ow.value, IntegerAttr):
        return ("c", ow.value.value.data)
    if isinstance(ow, (arith.AndIOp, arith.ShLIOp, arith.OrIOp)) and depth < 12:
        a = eval_ssa(operands, ow.lhs, depth + 1)
        b = eval_ssa(operands, ow.rhs, depth + 1)
        if a[0] == "c" and b[0] == "c":
            if isinstance(ow, arith.AndIOp):
                return ("c", a[1] & b[1])
            if isinstance(ow, arith.ShLIOp):
                return ("c", a[1] << b[1])
            return ("c", a[1] | b[1])
    return ("?", getattr(ow, "name", str(ow)))


# ---------------------------------------------------------------- generators
class Markers:
    def __init__(self, start=100):
        self.n = start

    def fresh(self):
        self.n += 1
        return self.n


def gen_cfg(rng, xdma=False, big=False):
    n = 27 if big else rng.choice([1, 1, 2, 2, 3, 3, 4, 5])
    if xdma:
        n = 2 if rng.random() < 0.7 else rng.choice([1, 3])
    spec = []
    for _ in range(n):
        td = 1 if big else rng.choice([1, 2, 3, 3, 4, 5, 6])
        flags = "".join(rng.choice("nnnnir") for _ in range(td))
        sp = [rng.choice([1, 2, 4, 8]) for _ in range(rng.choice([1, 1, 2]))]
        pool = OPT_KINDS + EXT_KINDS
        k = 0 if big else rng.choice([0, 1, 2, 3, 4, len(pool)])
        opts = rng.sample(pool, k)
        if rng.random() < 0.1 and opts:
            opts.append(rng.choice(opts))  # duplicated option object
        spec.append((flags, sp, opts))
    return spec


def gen_op(rng, spec, valid_only=False):
    """Stride patterns with pairwise distinct markers; sometimes shorter/longer lists, zero strides."""
    mk = Markers(rng.choice([10, 100, 1000]))
    pats, operands = [], []
    for (flags, sp, opts) in spec:
        td, sd = len(flags), len(sp)
        r = rng.random()
        nt = td if r < 0.5 else rng.randrange(0, td + 1)
        if not valid_only and rng.random() < 0.05:
            nt = td + 1
        ub = [mk.fresh() for _ in range(nt)]
        ts = [mk.fresh() for _ in range(nt)]
        for i in range(len(ts)):
            f = flags[i] if i < td else "n"
            if f == "i" and (valid_only or rng.random() < 0.9):
                ts[i] = 0
            elif f == "r" and rng.random() < 0.6:
                ts[i] = 0
                if rng.random() < 0.3 and i < len(ub):
                    ub[i] = 1
            elif rng.random() < 0.1:
                ts[i] = 0
        ns = sd
        if not valid_only and rng.random() < 0.06:
            ns = rng.choice([sd - 1, sd + 1])
        ss = [mk.fresh() for _ in range(ns)]
        for i in range(len(ss)):
            if rng.random() < 0.2:
                ss[i] = 0
        pats.append((ub, ts, ss))
        operands.append(rng.choice("ppbbzzc"))
    if not valid_only and rng.random() < 0.04:
        if rng.random() < 0.5:
            pats = pats[:-1]
        else:
            operands = operands[:-1]
    return {"pats": pats, "operands": operands}


# ---------------------------------------------------------------- Coq literals
def coq_str(s):
    assert '"' not in s
    return f'"{s}"%string'


def coq_fields(fields, i, every=4):
    """field names are compared for every `every`-th case (string literals are expensive for Coq to load)"""
    if i % every:
        return "None"
    return "(Some " + coqlist(coq_str(f) for f in fields) + ")"


def coq_cfg(spec):
    return coqlist(
        f"mkStreamer {coqlist(FLAGS[f] for f in fl)} {zlist(sp)} "
        + coqlist((o if o.startswith("O") else f"OExt {o}") for o in opts)
        for (fl, sp, opts) in spec)


def coq_op(opspec):
    pats = coqlist(f"mkPat {zlist(ub)} {zlist(ts)} {zlist(ss)}" for (ub, ts, ss) in opspec["pats"])
    zeros = coqlist(("true" if k == "z" else "false") for k in opspec["operands"])
    return f"(mkSop {pats} {zeros})"


def coq_vals(vals):
    if vals is None:
        return "None"
    items = []
    for kind, x in vals:
        if kind == "o":
            items.append(f"VOperand {x}")
        elif kind == "c":
            items.append(f"VConst {zlit(x)}")
        else:
            items.append("VOperand 999")  # unmodelled SSA value: forces a disagreement
    return "(Some " + coqlist(items) + ")"


def nontrivial(spec):
    return len(spec) >= 2 or any(opts for (_, _, opts) in spec)


# ---------------------------------------------------------------- L1
def impl_regular(spec, opspec):
    """(field names, values or None) from the real SNAXStreamer methods."""
    Bare = bare_streamer_class()
    acc = Bare(mk_cfg(spec))
    fields = list(acc.streamer_setup_fields)
    op, _ = mk_region(opspec)
    try:
        vals = read_vals(op, acc._generate_streamer_setup_vals(op))
    except (IndexError, AssertionError):
        vals = None
    return fields, vals


HEADER = ("From Snax Require Import Base.Prelude Model.C08StreamerCfg Model.C08Accels Model.C08Check.\n"
          "From Coq Require Import String.\n")


def run_groups(name, groups, chunk=80, files=4, header=HEADER):
    """groups = [(kind, coq test function, [case literal], [meta])]; the cases are cut into chunks which are
    spread over `files` cases files (each coqc start costs seconds), evaluated in parallel."""
    chunks = []
    for kind, test, cases, meta in groups:
        for a in range(0, len(cases), chunk):
            chunks.append((kind, test, a, cases[a:a + chunk], cases, meta))
    chunks.sort(key=lambda c: -sum(len(x) for x in c[3]))
    bins = [[] for _ in range(max(1, min(files, len(chunks))))]
    sizes = [0] * len(bins)
    for c in chunks:
        k = sizes.index(min(sizes))
        bins[k].append(c)
        sizes[k] += sum(len(x) for x in c[3])
    texts = []
    for bn in bins:
        t = header
        for j, (kind, test, a, part, _, _) in enumerate(bn):
            t += f"Definition cases_{j} := {coqlist(part)}.\nEval vm_compute in failing ({test}) cases_{j}.\n"
        texts.append(t)
    dis = []
    for (ok, out), bn in zip(vlib.coq_eval_many(name, texts, timeout=1200, par=len(bins)), bins):
        lists = vlib.parse_all_eval_lists(out)
        if not ok or len(lists) != len(bn):
            dis.append({"name": "cases-file:" + ",".join(sorted({c[0] for c in bn})), "detail": out[-2000:]})
            continue
        for bad, (kind, test, a, part, cases, meta) in zip(lists, bn):
            for idx in bad:
                dis.append({"name": f"L1:{kind}", "case": meta[a + idx], "coq_case": cases[a + idx][:800]})
    return dis


def correspondence(ctx):
    rng = ctx.rng
    oc = opt_classes()
    groups = []

    # csr_length of every extension class
    lens = [f"({e}, {oc[e]().csr_length}%nat)" for e in EXT_KINDS]
    groups.append(("len", "chk_len", lens, list(EXT_KINDS)))
    for e in EXT_KINDS:
        ctx.count({"csr_length": e}, False, None, "csr_length")

    # extension CSR values (order of the rescale parameters)
    cases, meta = [], []
    for i in range(12):
        r = gen_rescale(rng)
        for kind, e in (("rescale_down", "ERescaleDown"), ("rescale_up", "ERescaleUp"), ("add_i32", "EAdd")):
            _, op = parse_region(region_text({"pats": [([4], [8], [8])] * 2, "operands": ["p", "p"]}, "snax_xdma", xdma_body(kind, 2, r)))
            kernel_op = op.body.block.first_op.body.block.first_op
            vals = [int(x) for x in oc[e]().get_csr_values(kernel_op)]
            cases.append(f"({e}, {coq_rescale(r)}, {zlist(vals)})")
            meta.append({"ext": e, "rescale": r, "values": vals})
            ctx.count({"kind": "ext-csr", "ext": e, "rescale": r}, True, f"ec{e}{r}", "ext-csr")
    groups.append(("extcsr", "chk_extcsr", cases, meta))

    # regular system
    n = ctx.n(200, 1000)
    cases, meta = [], []
    for i in range(n):
        spec = gen_cfg(rng, big=(i % 97 == 96))
        opspec = gen_op(rng, spec)
        fields, vals = impl_regular(spec, opspec)
        cases.append(f"({coq_cfg(spec)}, {coq_op(opspec)}, {coq_fields(fields, i)}, {coq_vals(vals)})")
        meta.append({"cfg": spec, "op": opspec, "fields": fields, "vals": vals})
        ctx.count({"kind": "regular", "cfg": spec, "op": opspec, "raised": vals is None}, nontrivial(spec),
                  f"reg{spec}{opspec}", "regular" if vals is not None else "regular-raises")
    groups.append(("regular", "chk_regular", cases, meta))

    # snax_alu with arbitrary configurations
    cases, meta = [], []
    for i in range(ctx.n(40, 160)):
        spec = gen_cfg(rng)
        opspec = gen_op(rng, spec)
        fields, vals = impl_alu(spec, opspec)
        cases.append(f"({coq_cfg(spec)}, {coq_op(opspec)}, {coq_fields(fields, i)}, {coq_vals(vals)})")
        meta.append({"acc": "snax_alu", "cfg": spec, "op": opspec, "fields": fields, "vals": vals})
        ctx.count({"kind": "alu", "cfg": spec, "op": opspec}, nontrivial(spec), f"alu{spec}{opspec}", "alu")
    groups.append(("alu", "chk_alu", cases, meta))

    # xDMA
    cases, meta = [], []
    for i in range(ctx.n(80, 320)):
        spec = gen_cfg(rng, xdma=True) if i % 5 else list(XDMA_DEFAULT)
        opspec = gen_op(rng, spec, valid_only=(i % 3 != 0))
        if len(opspec["operands"]) < 1 or len(opspec["pats"]) != len(opspec["operands"]):
            opspec = gen_op(rng, spec, valid_only=True)
        kind = rng.choice(XDMA_BODIES)
        resc = gen_rescale(rng)
        fields, vals, matches = impl_xdma(spec, opspec, kind, resc)
        cases.append(f"({coq_cfg(spec)}, {coq_op(opspec)}, {coq_xbody(kind, matches)}, "
                     f"{coq_fields(fields, i)}, {coq_vals(vals)})")
        meta.append({"acc": "snax_xdma", "cfg": spec, "op": opspec, "body": kind, "fields": fields, "vals": vals})
        ctx.count({"kind": "xdma", "cfg": spec, "op": opspec, "body": kind}, True, f"xd{spec}{opspec}{kind}", "xdma:" + kind)
    groups.append(("xdma", "chk_xdma", cases, meta))

    # gemmx
    cases, meta = [], []
    for i in range(ctx.n(60, 240)):
        spec, n, opspec, kind, zp, resc = gen_gemmx_case(rng, i)
        fields, vals = impl_gemmx(spec, n, opspec, kind, zp, resc)
        cases.append(f"({coq_cfg(spec)}, {zlit(n)}, {coq_op(opspec)}, {coq_gbody(kind, resc)}, ({zlit(zp[0])}, {zlit(zp[1])}), "
                     f"{coq_fields(fields, i)}, {coq_vals(vals)})")
        meta.append({"acc": "snax_gemmx", "cfg": spec, "n": n, "op": opspec, "body": kind, "zp": zp, "rescale": resc,
                     "fields": fields, "vals": vals})
        ctx.count({"kind": "gemmx", "n": n, "body": kind, "op": opspec}, True, f"gx{spec}{n}{opspec}{kind}{resc}", "gemmx:" + kind)
    groups.append(("gemmx", "chk_gemmx", cases, meta))

    # snax_phs: streamer part + one value per phs_switch_<i> field + loop bound (switch VALUES are the decoder's, C20)
    cases, meta = [], []
    for i in range(ctx.n(24, 120)):
        case = gen_phs_case(rng)
        spec = phs_spec_of(phs_accelerator(case["kernels"], case["order"], case["tmpl"]))
        opspec = gen_op(rng, spec, valid_only=(i % 3 != 0))
        if len(opspec["operands"]) != 3 or len(opspec["pats"]) != 3:
            opspec = gen_op(rng, spec, valid_only=True)
        r = impl_phs(case, opspec)
        if r is None:
            ctx.count(dict(case, op=opspec), False, None, "phs-undecodable")
            continue
        spec, fields, nsw, sw, vals = r
        cases.append(f"({coq_cfg(spec)}, {coq_op(opspec)}, {nsw}%nat, {zlist(sw)}, {coq_fields(fields, i, every=2)}, {coq_vals(vals)})")
        meta.append(dict(case, cfg=spec, op=opspec, fields=fields, switches=sw, vals=vals))
        ctx.count(dict(case, op=opspec), True, f"phs{case}{opspec}", "phs")
    groups.append(("phs", "chk_phs", cases, meta))

    # hwpe
    fields, hv = impl_hwpe()
    lit = {"ptr": lambda k: f"HPtr {k}", "dim0": lambda k: "HDim0", "one": lambda k: "HOne", "?": lambda k: "HPtr 99"}
    groups.append(("hwpe", "chk_hwpe", [f"({coqlist(coq_str(f) for f in fields)}, {coqlist(lit[a](b) for a, b in hv)})"],
                   [{"acc": "snax_hwpe_mult", "fields": fields, "vals": hv}]))
    ctx.count({"kind": "hwpe", "fields": fields, "vals": hv}, True, "hwpe", "hwpe")

    return run_groups("c08", groups)


XDMA_BODIES = ["none", "testop", "add_i32", "add_i64", "rescale_down", "rescale_up"]
XDMA_DEFAULT = [("nnnnn", [8], ["EMaxPool", "EAdd", "EAddLong", "ERescaleDown", "ERescaleUp", "OChanMask"]),
                ("nnnnn", [8], ["EMemSet", "ETranspose", "OChanMask", "OByteMask"])]
GEMMX_DEFAULT = [("nnnnnn", [8], ["ETranspose", "OAddrRemap"]), ("nnn", [8], ["ETranspose", "OAddrRemap"]),
                 ("rnn", [8], ["OAddrRemap"]), ("rnn", [8, 4], ["OChanMask", "OAddrRemap", "OBroadcast"]),
                 ("rnn", [8, 4], ["OAddrRemap"])]
GEMMX_BODIES = ["mac_i32", "qmac_i32", "mac_i8", "qmac_i8", "mac_resc", "qmac_resc", "rescale_only", "other",
                "mac_add_i32", "qmac_add_i32", "mac_add_resc", "qmac_add_resc"]   # *_add_*: gemm (mac, add[, rescale])


def impl_alu(spec, opspec):
    from snaxc.accelerators.snax_alu import SNAXAluAccelerator
    acc = SNAXAluAccelerator(mk_cfg(spec))
    op, _ = mk_region(opspec, "snax_alu")
    try:
        vals = read_vals(op, acc._generate_stream_setup_vals(op))
    except (IndexError, AssertionError):
        vals = None
    return list(acc.fields), vals


def xdma_matches(kind_body_op, spec):
    """[(ext kind, csr values)] for every extension kind whose supported kernel matches the body kernel."""
    from snaxc.dialects import dart
    oc = opt_classes()
    first = kind_body_op.body.block.first_op
    if not isinstance(first, dart.GenericOp):
        return None
    kernel_op = first.body.block.first_op
    out = []
    for e in EXT_KINDS:
        ext = oc[e]()
        if ext.supported_kernel is not None and ext.supported_kernel.is_same_kernel(kernel_op):
            out.append((e, [int(x) for x in ext.get_csr_values(kernel_op)]))
    return out


def impl_xdma(spec, opspec, kind, resc):
    from snaxc.accelerators.snax_xdma import SNAXXDMAAccelerator
    acc = SNAXXDMAAccelerator(mk_cfg(spec, xdma=True))
    _, op = parse_region(region_text(opspec, "snax_xdma", xdma_body(kind, len(opspec["operands"]), resc)))
    matches = xdma_matches(op, spec)
    try:
        vals = read_vals(op, acc._generate_stream_setup_vals(op))
    except (IndexError, AssertionError):
        vals = None
    return list(acc.fields), vals, matches


def coq_xbody(kind, matches):
    if matches is None:
        return "XOther"
    return "(XGeneric " + coqlist(f"({e}, {zlist(v)})" for e, v in matches) + ")"


def gen_gemmx_case(rng, i):
    if i % 3 == 0:
        spec = list(GEMMX_DEFAULT)
    else:
        spec = gen_cfg(rng)
        while len(spec) < 3:
            spec = spec + gen_cfg(rng)
        spec = spec[:5]
    n = rng.choice([8, 8, 8, 4, 16, 1, 6, 12])
    opspec = gen_op(rng, spec, valid_only=True)
    # small bounds so that K = prod(A bounds) // M is meaningful
    pats = []
    for (ub, ts, ss) in opspec["pats"]:
        ub = [rng.choice([1, 2, 3, 4]) for _ in ub]
        pats.append((ub, ts, ss))
    if rng.random() < 0.1 and pats:
        k = rng.randrange(len(pats))
        pats[k] = ([0] * len(pats[k][0]), [0] * len(pats[k][0]), pats[k][2])   # disabled streamer
    opspec = {"pats": pats, "operands": opspec["operands"]}
    kind = rng.choice(GEMMX_BODIES)
    zp = (rng.choice([0, 5, -3, 127, -128]), rng.choice([0, 9, -1]))
    resc = gen_rescale(rng, n, lens=[1, 1, n, 2 * n, 3, max(1, n - 1)])
    return spec, n, opspec, kind, zp, resc


def impl_gemmx(spec, n, opspec, kind, zp, resc):
    from snaxc.accelerators.snax_gemmx import SNAXGEMMXAccelerator
    acc = SNAXGEMMXAccelerator(mk_cfg(spec), 8, n, 8)
    _, op = parse_region(region_text(opspec, "snax_gemmx", gemmx_body(kind, len(opspec["operands"]), zp, resc)))
    operands = list(op.operands)
    from snaxc.dialects import kernel
    for o in op.walk():   # the attribute values as xDSL parsed them (e.g. `true : i1` is -1)
        if isinstance(o, kernel.RescaleOp):
            resc.update({"max": o.max_int.value.data, "min": o.min_int.value.data, "dr": o.double_round.value.data,
                         "zpin": o.input_zp.value.data, "zpout": o.output_zp.value.data,
                         "shift": list(o.shift.get_values()), "mult": list(o.multiplier.get_values())})
    try:
        args, _ = acc._generate_setup_vals(op)
        vals = [eval_ssa(operands, v) for _, v in args]
    except (IndexError, AssertionError, ValueError, ZeroDivisionError, NotImplementedError):
        vals = None
    return list(acc.fields), vals


def coq_rescale(r):
    return (f"(mkRescale {zlit(r['max'])} {zlit(r['min'])} {zlit(r['dr'])} {zlist(r['shift'])} {zlist(r['mult'])} "
            f"{zlit(r['zpin'])} {zlit(r['zpout'])})")


def coq_gbody(kind, resc):
    if kind == "other":
        return "GBOther"
    if kind == "rescale_only":
        return f"(GBRescale {coq_rescale(resc)})"
    q = "true" if kind.startswith("qmac") else "false"
    if kind.endswith("_i32"):
        return f"(GBMac {q} false None)"
    if kind.endswith("_i8"):
        return f"(GBMac {q} true None)"
    return f"(GBMac {q} true (Some {coq_rescale(resc)}))"


HWPE_TEXT = """
func.func public @simple_mult(%A: memref<?xi32>, %B: memref<?xi32>, %D: memref<?xi32>) -> () {
  linalg.generic { indexing_maps = [], iterator_types = ["parallel"], library_call = "snax_hwpe_mult" }
  ins(%A, %B: memref<?xi32>, memref<?xi32>) outs(%D: memref<?xi32>) {
  ^bb0(%a: i32, %b: i32, %d: i32):
    %r0 = arith.muli %a, %b : i32
    linalg.yield %r0 : i32
  }
  func.return
}
"""


ALU_LINALG_TEXT = """
func.func public @simple_add(%A: memref<?xi64>, %B: memref<?xi64>, %D: memref<?xi64>) -> () {
  linalg.generic { indexing_maps = [], iterator_types = ["parallel"], library_call = "snax_alu" }
  ins(%A, %B: memref<?xi64>, memref<?xi64>) outs(%D: memref<?xi64>) {
  ^bb0(%a: i64, %b: i64, %d: i64):
    %r0 = arith.addi %a, %b : i64
    linalg.yield %r0 : i64
  }
  func.return
}
"""


def l2_alu_linalg():
    """snax_alu's legacy linalg.generic route (SNAXAluAccelerator._generate_setup_vals: a hand-written value list
    for the DEFAULT streamer configuration), through the real convert-linalg-to-accfg pass: every named register
    of the emitted accfg.setup against what its name says (pointer of operand k / 0 / element size 8 / dim(A,0)/4 /
    4 elements * 8 bytes)."""
    from xdsl.dialects import arith, linalg, memref
    from xdsl.parser import Parser
    from snaxc.accelerators.snax_alu import SNAXAluAccelerator
    from snaxc.dialects import accfg
    from snaxc.transforms.convert_linalg_to_accfg import ConvertLinalgToAccPass
    mod = Parser(xctx(), str(SNAXAluAccelerator().generate_acc_op()) + ALU_LINALG_TEXT).parse_module()
    g = [o for o in mod.walk() if isinstance(o, linalg.GenericOp)][0]
    operands = list(g.operands)
    ConvertLinalgToAccPass().apply(xctx(), mod)
    mod.verify()
    setup = [o for o in mod.walk() if isinstance(o, accfg.SetupOp)][0]
    names = [p.data for p in setup.param_names]

    def const_of(v):
        ow = v.owner
        return ow.value.value.data if isinstance(ow, arith.ConstantOp) else None

    def classify(v):
        ow = v.owner
        if isinstance(ow, arith.ConstantOp):
            return ("c", ow.value.value.data)
        if isinstance(ow, arith.IndexCastOp):
            src = ow.input.owner
            if isinstance(src, arith.DivUIOp) and isinstance(src.lhs.owner, memref.DimOp) and \
                    src.lhs.owner.source is operands[0] and const_of(src.lhs.owner.index) == 0 and const_of(src.rhs) == 4:
                return ("dim0/4", 0)
            if isinstance(src, arith.AddiOp) and isinstance(src.lhs.owner, memref.ExtractAlignedPointerAsIndexOp):
                ref = src.lhs.owner.source
                return ("ptr", [k for k, o in enumerate(operands) if o is ref][0])
        return ("?", getattr(ow, "name", str(ow)))

    got = [classify(v) for v in setup.values]
    probs = []
    if len(names) != len(got):
        probs.append({"what": "count", "fields": len(names), "values": len(got)})
    for name, gv in zip(names, got):
        m = NAME_RE.match(name)
        if m:
            s_, kind = string.ascii_lowercase.index(m.group(1)), m.group(2)
            want = {"ptr_low": ("ptr", s_), "ptr_high": ("c", 0), "sstride_0": ("c", 8), "bound_0": ("dim0/4", 0),
                    "tstride_0": ("c", 32)}.get(kind)
        else:
            want = {"alu_mode": ("c", 0), "loop_bound_alu": ("dim0/4", 0)}.get(name)
        if want is None:
            probs.append({"what": "unknown-field", "field": name})
        elif want != gv:
            probs.append({"what": "value", "field": name, "want": want, "got": gv})
    return probs


def impl_hwpe():
    """field names and a classification of each generated value by the computation that produces it."""
    from xdsl.dialects import arith, linalg, memref
    from xdsl.parser import Parser
    from snaxc.accelerators.snax_hwpe_mult import SNAXHWPEMultAccelerator
    mod = Parser(xctx(), HWPE_TEXT).parse_module()
    g = [o for o in mod.walk() if isinstance(o, linalg.GenericOp)][0]
    acc = SNAXHWPEMultAccelerator()
    vals = acc._generate_setup_vals(g)
    operands = list(g.operands)
    out = []
    for _, v in vals:
        ow = v.owner
        kind = ("?", 0)
        if isinstance(ow, arith.ConstantOp):
            kind = ("one", 0) if ow.value.value.data == 1 else ("?", 0)
        elif isinstance(ow, arith.IndexCastOp):
            src = ow.input.owner
            if isinstance(src, memref.DimOp) and src.source is operands[0] and \
                    isinstance(src.index.owner, arith.ConstantOp) and src.index.owner.value.value.data == 0:
                kind = ("dim0", 0)
            elif isinstance(src, arith.AddiOp) and isinstance(src.lhs.owner, memref.ExtractAlignedPointerAsIndexOp):
                ref = src.lhs.owner.source
                kind = ("ptr", [k for k, o in enumerate(operands) if o is ref][0])
        out.append(kind)
    return list(acc.fields), out


# ---------------------------------------------------------------- snax_phs
# kernels over two i32 inputs (bodies of the dart.generic inside the streaming region)
PHS_KERNELS = [
    ["%v0 = arith.addi %a, %b : i32"],
    ["%v0 = arith.muli %a, %b : i32"],
    ["%v0 = arith.muli %a, %b : i32", "%v1 = arith.addi %v0, %a : i32"],
    ["%v0 = arith.subi %a, %b : i32", "%v1 = arith.muli %v0, %b : i32"],
    ["%v0 = arith.addi %a, %b : i32", "%v1 = arith.addi %v0, %b : i32", "%v2 = arith.muli %v1, %a : i32"],
    ["%v0 = arith.andi %a, %b : i32", "%v1 = arith.ori %v0, %b : i32"],
]
# TemplateSpec (input maps, output maps, bounds): they fix the streamer configuration of the accelerator
PHS_TEMPLATES = [
    (("(d0) -> (d0)", "(d0) -> (d0)"), ("(d0) -> (d0)",), (4,)),
    (("(d0, d1) -> (d0, d1)", "(d0, d1) -> (d0, d1)"), ("(d0, d1) -> (d0, d1)",), (4, 2)),
    (("(d0, d1) -> (d0)", "(d0, d1) -> (d1)"), ("(d0, d1) -> (d0, d1)",), (8, 2)),
    (("(d0, d1, d2) -> (d0, d2)", "(d0, d1, d2) -> (d2, d1)"), ("(d0, d1, d2) -> (d0, d1)",), (2, 4, 2)),
]


def phs_body(k):
    lines = PHS_KERNELS[k]
    last = "%v" + str(len(lines) - 1)
    ops = [f'%g = "dart.generic"(%s0, %s1) <{{library_call = "x"}}> ({{', "^bb1(%a : i32, %b : i32, %c : i32):"]
    ops += ["  " + ln for ln in lines] + [f"  dart.yield {last} : i32",
                                          "}) : (!dart.stream<i32>, !dart.stream<i32>) -> !dart.stream<i32>"]
    return {"args": ["i32"] * 3, "ops": ops + ["dart.yield %g : !dart.stream<i32>"]}


def phs_accelerator(kernels, order, tmpl):
    """The accelerator snaxc/tools/phsc_main.py builds: a PE merged from the kernels (in `order`) + a TemplateSpec."""
    from xdsl.ir.affine import AffineMap
    from xdsl.parser import Parser
    from xdsl.pattern_rewriter import PatternRewriter
    from snaxc.accelerators.snax_phs import SNAXPHSAccelerator
    from snaxc.phs.combine import append_to_abstract_graph
    from snaxc.phs.encode import convert_generic_body_to_phs
    from snaxc.phs.template_spec import TemplateSpec
    dummy = {"pats": [([4], [8], [8])] * 3, "operands": ["p", "p", "p"]}
    G = None
    for j in order:
        _, region = parse_region(region_text(dummy, "phs_acc", phs_body(kernels[j])))
        gen = region.body.block.first_op
        pe = convert_generic_body_to_phs(gen, "phs_acc", PatternRewriter(gen))
        if G is None:
            G = pe
        else:
            append_to_abstract_graph(pe, G)
    ins, outs, bounds = PHS_TEMPLATES[tmpl]
    amap = lambda t: Parser(xctx(), f"affine_map<{t}>").parse_attribute().data
    spec = TemplateSpec(tuple(amap(t) for t in ins), tuple(amap(t) for t in outs), tuple(bounds))
    return SNAXPHSAccelerator(G, spec)


def phs_spec_of(acc):
    """the streamer configuration the accelerator really has, as a model spec"""
    return [("".join(str(f.value) for f in st.temporal_dims), [int(x) for x in st.spatial_dims], [])
            for st in acc.streamer_config.data.streamers]


def gen_phs_case(rng):
    nk = rng.choice([1, 2, 2, 3])
    kernels = rng.sample(range(len(PHS_KERNELS)), nk)
    order = list(range(nk))
    rng.shuffle(order)
    return {"acc": "snax_phs", "kernels": kernels, "order": order, "use": rng.randrange(nk),
            "tmpl": rng.randrange(len(PHS_TEMPLATES))}


def phs_lower(case, opspec, through_convert):
    """-> (acc, spec, region op, decoded switch values or None when the decoder (C20) refuses the kernel)"""
    from xdsl.pattern_rewriter import PatternRewriter
    from snaxc.phs.decode import decode_abstract_graph
    from snaxc.phs.encode import convert_generic_body_to_phs
    acc = phs_accelerator(case["kernels"], case["order"], case["tmpl"])
    _, region = parse_region(region_text(opspec, "phs_acc", phs_body(case["kernels"][case["use"]])))
    gen = region.body.block.first_op
    try:
        sw = [int(x) for x in decode_abstract_graph(acc.pe, convert_generic_body_to_phs(gen, "phs_acc", PatternRewriter(gen)))]
    except Exception:   # noqa: BLE001  -- decoding is C20's subject
        sw = None
    return acc, region, sw


def impl_phs(case, opspec):
    acc, region, sw = phs_lower(case, opspec, False)
    if sw is None:
        return None
    try:
        vals = read_vals(region, acc._generate_stream_setup_vals(region))
    except (IndexError, AssertionError):
        vals = None
    return phs_spec_of(acc), list(acc.fields), len(acc.phs_switch_fields), sw, vals


def l2_phs(case, opspec):
    acc, region, sw = phs_lower(case, opspec, True)
    if sw is None:
        return [], None
    spec = phs_spec_of(acc)
    names, got = lower_with(acc, region)
    ub0 = opspec["pats"][0][0]
    steps = _prod(ub0)

    def extra(name):
        m = re.match(r"^phs_switch_(\d+)$", name)
        if m:
            i = int(m.group(1))
            return ("c", sw[i]) if i < len(sw) else None
        if name == "loop_bound_alu":
            return ("c", steps)
        return None

    probs = check_setup(names, got, spec, opspec, extra)
    if sum(1 for nm in names if nm.startswith("phs_switch_")) != len(sw):
        probs.append({"what": "count", "field": "phs_switch", "fields": names, "values": sw})
    only_lb = probs and all(p.get("field") == "loop_bound_alu" and p.get("got") == ("c", ub0[0]) for p in probs)
    return probs, ("alu_loop_bound_first_dim" if only_lb and len(ub0) > 1 else None)


# ---------------------------------------------------------------- L2: the property on the implementation
NAME_RE = re.compile(r"^([a-z])_(ptr_low|ptr_high|sstride_(\d+)|bound_(\d+)|tstride_(\d+)|address_remap|channel_mask|"
                     r"transpose|broadcast)$")
ZERO_ADDRESS = 0x1000_0040


def expected_by_name(name, spec, opspec):
    """What the register called `name` must receive according to the property statement.  Returns
    ('o', k) / ('c', int) or None when the name is not a streamer field."""
    m = NAME_RE.match(name)
    if not m:
        return None
    s = string.ascii_lowercase.index(m.group(1))
    flags, sp, opts = spec[s]
    ub, ts, ss = opspec["pats"][s]
    zero = opspec["operands"][s] == "z"
    kind = m.group(2)
    if kind == "ptr_low":
        return ("c", ZERO_ADDRESS) if zero else ("o", s)
    if kind in ("ptr_high", "address_remap", "transpose"):
        return ("c", 0)
    if kind.startswith("sstride_"):
        return ("c", ss[int(m.group(3))])
    if kind.startswith("bound_"):
        i = int(m.group(4))
        b = ub[i] if i < len(ub) else 1
        t = ts[i] if i < len(ts) else 0
        if flags[i] == "r" and t == 0 and b > 1:
            b = 1   # internally reused dimension collapsed
        return ("c", b)
    if kind.startswith("tstride_"):
        i = int(m.group(5))
        return ("c", ts[i] if i < len(ts) else 0)
    if kind == "channel_mask":
        return ("c", 0 if zero else -1)
    if kind == "broadcast":
        return ("c", 1 if any(x == 0 for x in ss[:len(sp)]) else 0)
    return None


def check_setup(names, got, spec, opspec, extra=None):
    """names/got: parallel lists from the emitted accfg.setup.  Returns list of problems."""
    probs = []
    if len(names) != len(got):
        probs.append({"what": "count", "fields": len(names), "values": len(got)})
    for name, g in zip(names, got):
        want = expected_by_name(name, spec, opspec)
        if want is None and extra is not None:
            want = extra(name)
        if want is None:
            probs.append({"what": "unknown-field", "field": name})
        elif want != g and want != ("any",):
            probs.append({"what": "value", "field": name, "want": want, "got": g})
    return probs


def lower_with(acc, op):
    """Run the real convert_to_acc_ops and read the accfg.setup back."""
    from snaxc.dialects import accfg
    ops = acc.convert_to_acc_ops(op)
    setup = [o for o in ops if isinstance(o, accfg.SetupOp)][0]
    names = [p.data for p in setup.param_names]
    operands = list(op.operands)
    got = [read_val(operands, v) for v in setup.values]
    return names, got


def l2_alu(spec, opspec):
    from snaxc.accelerators.snax_alu import SNAXAluAccelerator
    acc = SNAXAluAccelerator(mk_cfg(spec))
    op, _ = mk_region(opspec, "snax_alu")
    names, got = lower_with(acc, op)

    ub0 = opspec["pats"][0][0]
    steps = 1
    for b in ub0:
        steps *= b

    def extra(name):
        if name == "alu_mode":
            return ("c", 0)
        if name == "loop_bound_alu":
            return ("c", steps)      # the kernel loop count must equal the number of temporal steps of the stream
        return None

    probs = check_setup(names, got, spec, opspec, extra)
    only_lb = probs and all(p.get("field") == "loop_bound_alu" and p.get("got") == ("c", ub0[0]) for p in probs)
    return probs, ("alu_loop_bound_first_dim" if only_lb and len(ub0) > 1 else None)


def l2_overlong_rejected(opspec):
    """The property quantifies over the patterns the streaming-region verifier accepts; the value generators read
    only the first temporal_dim / spatial_dim entries of a longer pattern (silent truncation, modelled).  Both
    drivers verify between passes, so truncation is unreachable exactly as long as StreamingRegionOp.verify_
    rejects a pattern with more dims than its streamer: checked here on the default snax_alu (1 temporal, 1 spatial)."""
    from xdsl.parser import Parser
    from xdsl.utils.exceptions import VerifyException
    from snaxc.accelerators.snax_alu import SNAXAluAccelerator
    from snaxc.dialects.snax_stream import StreamingRegionOp
    text = region_text(opspec, "snax_alu", {"args": ["i64"] * 3, "ops": []})
    mod = Parser(xctx(), str(SNAXAluAccelerator().generate_acc_op()) + "\n" + text).parse_module()
    region = [o for o in mod.walk() if isinstance(o, StreamingRegionOp)][0]
    try:
        region.verify_()
    except VerifyException:
        return []
    return [{"what": "overlong-pattern-accepted", "field": "", "patterns": opspec["pats"]}]


# ---- xDMA
XNAME_RE = re.compile(r"^([a-z])_(enabled_chan|enabled_byte|bypass|([a-z_]+?)_(\d+))$")


def ext_csr_spec(e, resc):
    """what each extension's CSRs mean (rescale: input_zp, multiplier, output_zp, shift; add: number of inputs)"""
    if e in ("ERescaleDown", "ERescaleUp"):
        return [resc["zpin"], resc["mult"][0], resc["zpout"], resc["shift"][0]]
    return {"EAdd": [2], "EAddLong": [2], "ETranspose": [3], "EMemSet": [0], "EMaxPool": [1]}[e]


def xdma_extra(spec, opspec, matches, resc=None):
    S, X = _impl()
    if matches is not None and resc is not None:
        matches = [(e, ext_csr_spec(e, resc)) for e, _ in matches]
    oc = opt_classes()
    by_name = {oc[e]().name: e for e in EXT_KINDS}

    def extra(name):
        m = XNAME_RE.match(name)
        if not m:
            return None
        s = string.ascii_lowercase.index(m.group(1))
        zero = opspec["operands"][s] == "z"
        if m.group(2) in ("enabled_chan", "enabled_byte"):
            return ("c", 0 if zero else -1)
        exts = [o for o in spec[s][2] if o.startswith("E")]
        md = dict(matches or [])
        if m.group(2) == "bypass":
            return ("c", sum(2 ** i for i, e in enumerate(exts) if e in md))
        e = by_name.get(m.group(3))
        if e is None:
            return None
        i = int(m.group(4))
        return ("c", md[e][i] if e in md and i < len(md[e]) else 0)

    return extra


def xdma_klass(spec, opspec, matches):
    """the decidable classes of the known finding F7 (Coq: safe_xdmab / zero_uniformb)"""
    oc = opt_classes()
    if any("OChanMask" not in opts for (_, _, opts) in spec):
        return "not_safe_xdma"
    if matches is None and any(oc[o]().csr_length != 1 for (_, _, opts) in spec for o in opts if o.startswith("E")):
        return "not_safe_xdma"
    zs = [k == "z" for k in opspec["operands"]]
    if any(z != zs[-1] for z in zs):
        return "xdma_zero_not_uniform"
    return None


def l2_xdma(spec, opspec, kind, resc, through_pass=False):
    from snaxc.accelerators.snax_xdma import SNAXXDMAAccelerator
    acc = SNAXXDMAAccelerator(mk_cfg(spec, xdma=True))
    text = region_text(opspec, "snax_xdma", xdma_body(kind, len(opspec["operands"]), resc))
    if through_pass:
        names, got, matches = lower_through_pass(acc, text, xdma_matches, the_ctx=xdma_ctx())
    else:
        _, op = parse_region(text)
        matches = xdma_matches(op, spec)
        names, got = lower_with(acc, op)
    probs = check_setup(names, got, spec, opspec, xdma_extra(spec, opspec, matches, resc))
    klass = xdma_klass(spec, opspec, matches)
    # A known class explains only what it can cause; any other wrong register on such an input is new.
    #  F7b (zero flags not uniform): wrong MASK values (enabled_chan / enabled_byte) only;
    #  F7: a count mismatch and every register AFTER the first field that has no value of its own (an `enabled_chan`
    #      of a streamer without HasChannelMask; the second CSR of a multi-CSR extension under a non-generic body).
    zs = [k == "z" for k in opspec["operands"]]
    by_f7b = lambda p: (any(z != zs[-1] for z in zs) and p.get("what") == "value"
                        and re.search(r"_enabled_(chan|byte)$", str(p.get("field"))) is not None)
    if klass == "xdma_zero_not_uniform" and not all(by_f7b(p) for p in probs):
        klass = None
    if klass == "not_safe_xdma":
        oc = opt_classes()
        bad = []
        for si, (_, _, opts) in enumerate(spec):
            letter = string.ascii_lowercase[si]
            if "OChanMask" not in opts:
                bad.append(f"{letter}_enabled_chan")
            if matches is None:
                bad += [f"{letter}_{oc[o]().name}_1" for o in opts if o.startswith("E") and oc[o]().csr_length > 1]
        first_bad = min([names.index(x) for x in bad if x in names] or [0])
        by_f7 = lambda p: p.get("what") == "count" or (p.get("field") in names and names.index(p["field"]) >= first_bad)
        if not all(by_f7(p) or by_f7b(p) for p in probs):
            klass = None
    return probs, klass


def lower_through_pass(acc, text, pre=None, the_ctx=None):
    """module = accelerator op + function; the streaming region is verified as both drivers do between passes
    (StreamingRegionOp.verify_: number of patterns, no more dims than the streamer has), then the real
    convert-linalg-to-accfg pass (default configuration of the registered accelerator) and the module verifier
    (SetupOp.verify_)."""
    from xdsl.parser import Parser
    from snaxc.dialects import accfg
    from snaxc.dialects.snax_stream import StreamingRegionOp
    from snaxc.transforms.convert_linalg_to_accfg import ConvertLinalgToAccPass
    the_ctx = the_ctx or xctx()
    mod = Parser(the_ctx, str(acc.generate_acc_op()) + "\n" + text).parse_module()
    region = [o for o in mod.walk() if isinstance(o, StreamingRegionOp)][0]
    region.verify_()
    extra = pre(region, None) if pre else None
    operands = list(region.operands)
    ConvertLinalgToAccPass().apply(the_ctx, mod)
    mod.verify()
    setup = [o for o in mod.walk() if isinstance(o, accfg.SetupOp)][0]
    names = [p.data for p in setup.param_names]
    got = [eval_ssa(operands, v) for v in setup.values]
    return names, got, extra


# ---- gemmx
def _prod(xs):
    r = 1
    for x in xs:
        r *= x
    return r


def gemmx_extra(n, opspec, kind, zp, resc):
    """What each gemmx kernel register must receive, written from the register descriptions in snax_gemmx.py
    (`subtractions: zp_b (i8) | zp_a (i8)`, `csr0: min_int | max_int | out_zp | in_zp`, 4 shifts per CSR...)."""
    pats = opspec["pats"]
    b = lambda x: x & 255
    if kind == "rescale_only":
        i8, K, M = True, 1, _prod(pats[0][0])
        loop, byp, sub = M, 0, 0
        r = dict(resc, shift=[resc["shift"][0]] * (4 * ((n + 3) // 4)), mult=[resc["mult"][0]] * n)
    else:
        i8 = not kind.endswith("_i32")
        lp = pats[2] if i8 else pats[-1]
        M = _prod(bd for bd, st in zip(lp[0], lp[1]) if st != 0)
        K = _prod(pats[0][0]) // M
        loop, byp = (M, 0) if i8 else (0, 1)
        za, zb = zp if kind.startswith("qmac") else (0, 0)
        sub = b(za) | (b(zb) << 8)
        if kind.endswith("_resc"):
            r = dict(resc)
            if len(r["shift"]) == 1:
                r["shift"] = r["shift"] * n
            if len(r["mult"]) == 1:
                r["mult"] = r["mult"] * n
        elif i8:
            r = {"max": 127, "min": -128, "dr": 0, "shift": [9] * n, "mult": [1] * n, "zpin": 0, "zpout": 0}
        else:
            r = None

    def extra(name):
        if name == "K":
            return ("c", K)
        if name == "N":
            return ("c", 1)
        if name == "M":
            return ("c", M)
        if name == "subtractions":
            return ("c", sub)
        if name == "temporal_loop_bound":
            return ("c", loop)
        if name == "bypassSIMD":
            return ("c", byp)
        if name == "csr0":
            return ("c", 0 if r is None else (b(r["min"]) << 24) | (b(r["max"]) << 16) | (b(r["zpout"]) << 8) | b(r["zpin"]))
        if name == "csr1":
            return ("c", 0 if r is None else r["dr"])
        m = re.match(r"^(shift|mult)_(\d+)$", name)
        if not m:
            return None
        i = int(m.group(2))
        if m.group(1) == "mult":
            return ("c", 1 if r is None else r["mult"][i])
        if r is None:
            return ("c", 0)
        c = r["shift"][4 * i:4 * i + 4]
        return ("c", c[0] | (c[1] << 8) | (c[2] << 16) | (c[3] << 24))

    return extra


def gemmx_supported(n, kind, resc):
    """bodies / parameters the gemmx generator is specified for (others raise loudly)"""
    if kind == "other":
        return False
    if kind in ("mac_i8", "qmac_i8") and n % 4:
        return False
    if kind.endswith("_resc"):
        ls, lm = len(resc["shift"]), len(resc["mult"])
        ls = n if ls == 1 else ls
        lm = n if lm == 1 else lm
        return ls % 4 == 0 and ls >= n and lm >= n
    return True


def l2_gemmx(spec, n, opspec, kind, zp, resc, through_pass=False):
    from snaxc.accelerators.snax_gemmx import SNAXGEMMXAccelerator
    acc = SNAXGEMMXAccelerator(mk_cfg(spec), 8, n, 8)
    text = region_text(opspec, "snax_gemmx", gemmx_body(kind, len(opspec["operands"]), zp, resc))
    resc = dict(resc)
    resc["dr"] = 1 if resc["dr"] else 0       # meaning of csr1: the double_round flag
    if through_pass:
        names, got, _ = lower_through_pass(acc, text)
    else:
        _, op = parse_region(text)
        operands = list(op.operands)
        from snaxc.dialects import accfg
        ops = acc.convert_to_acc_ops(op)
        setup = [o for o in ops if isinstance(o, accfg.SetupOp)][0]
        names = [p.data for p in setup.param_names]
        got = [eval_ssa(operands, v) for v in setup.values]
    probs = check_setup(names, got, spec, opspec, gemmx_extra(n, opspec, kind, zp, resc))
    # `true : i1` is the integer -1 in xDSL and is written to csr1 as an i32: known finding F24
    only_dr = probs and all(p.get("field") == "csr1" and p.get("got") == ("c", -1) and p.get("want") == ("c", 1) for p in probs)
    return probs, ("double_round_allones" if only_dr else None)


def gen_gemmx_l2(rng, i):
    """valid gemmx cases: M divides prod(A bounds) is not needed for the register check"""
    while True:
        spec, n, opspec, kind, zp, resc = gen_gemmx_case(rng, i)
        if not gemmx_supported(n, kind, resc):
            continue
        pats = opspec["pats"]
        if len(pats) < 3 or not pats[0][0]:
            continue
        lp = pats[2] if not kind.endswith("_i32") else pats[-1]
        if kind != "rescale_only" and _prod(bd for bd, st in zip(lp[0], lp[1]) if st != 0) == 0:
            continue
        return spec, n, opspec, kind, zp, resc


def search(ctx, deep=False):
    rng = ctx.rng
    fails = []
    mult = 3 if deep else 1

    def run(acc, key, fn, case, klass_of=None):
        klass = None
        try:
            r = fn()
            if isinstance(r, tuple):
                probs, klass = r
            else:
                probs = r
        except Exception as e:
            probs = [{"what": "raised", "error": repr(e)[:300]}]
            klass = klass_of() if klass_of else None
        ctx.count(dict(case, L2=key), True, f"{key}{case}", "L2-" + key)
        for p in probs:
            fails.append(dict(case, what=p["what"], acc=acc, detail=p, klass=klass))

    for i in range(ctx.n(120, 600) * mult):
        spec = gen_cfg(rng)
        opspec = gen_op(rng, spec, valid_only=True)
        if not opspec["pats"][0][0]:
            opspec["pats"][0] = ([7], [0 if spec[0][0][0] == "i" else 9], opspec["pats"][0][2])
        run("snax_alu", "alu", lambda: l2_alu(spec, opspec), {"cfg": spec, "op": opspec})

    # registered default accelerators through the real pass + verifier
    from snaxc.accelerators.snax_alu import SNAXAluAccelerator
    for i in range(ctx.n(10, 100) * mult):
        spec = [("n", [4], [])] * 3
        opspec = gen_op(rng, spec, valid_only=True)
        opspec["pats"] = [((p[0] or [5]), (p[1] or [40]), p[2]) for p in opspec["pats"]]
        body = {"args": ["i64"] * 3, "ops": []}

        def f():
            names, got, _ = lower_through_pass(SNAXAluAccelerator(), region_text(opspec, "snax_alu", body))
            return check_setup(names, got, spec, opspec,
                               lambda nm: ("c", 0) if nm == "alu_mode" else (("c", opspec["pats"][0][0][0]) if nm == "loop_bound_alu" else None))
        run("snax_alu", "alu-pass", f, {"cfg": spec, "op": opspec})

    for i in range(ctx.n(60, 400) * mult):
        default = i % 4 == 0
        spec = list(XDMA_DEFAULT) if default else gen_cfg(rng, xdma=True)
        # default configuration: through the real pass, in the snax-opt context with snax_xdma registered (xdma_ctx)
        if not default and rng.random() < 0.75:
            spec = [(f, sp, opts if "OChanMask" in opts else opts + ["OChanMask"]) for (f, sp, opts) in spec]
        opspec = gen_op(rng, spec, valid_only=True)
        if rng.random() < 0.7:
            opspec["operands"] = [rng.choice("pcb")] * len(spec) if rng.random() < 0.8 else ["z"] * len(spec)
        kind = rng.choice(XDMA_BODIES[2:] if rng.random() < 0.8 else XDMA_BODIES)
        resc = gen_rescale(rng)
        case = {"cfg": spec, "op": opspec, "body": kind, "rescale": resc, "through_pass": default}
        run("snax_xdma", "xdma", lambda: l2_xdma(spec, opspec, kind, resc, default), case,
            lambda: xdma_klass(spec, opspec, None if kind in ("none", "testop") else []))

    for i in range(ctx.n(50, 300) * mult):
        spec, n, opspec, kind, zp, resc = gen_gemmx_l2(rng, i)
        default = spec == GEMMX_DEFAULT and n == 8
        case = {"cfg": spec, "n": n, "op": opspec, "body": kind, "zp": list(zp), "rescale": resc, "through_pass": default}
        run("snax_gemmx", "gemmx", lambda: l2_gemmx(spec, n, opspec, kind, zp, resc, default), case)

    for i in range(ctx.n(20, 120) * mult):
        case = gen_phs_case(rng)
        spec = phs_spec_of(phs_accelerator(case["kernels"], case["order"], case["tmpl"]))
        opspec = gen_op(rng, spec, valid_only=True)
        opspec["pats"] = [((p[0] or [5]), (p[1] or [40]), p[2]) for p in opspec["pats"]]
        run("snax_phs", "phs", lambda: l2_phs(case, opspec), dict(case, cfg=spec, op=opspec))

    for i in range(ctx.n(6, 30)):
        spec = [("n", [4], [])] * 3
        opspec = gen_op(rng, spec, valid_only=True)
        opspec["pats"] = [((p[0] or [5]), (p[1] or [40]), p[2]) for p in opspec["pats"]]
        k = rng.randrange(3)
        ub, ts, ss = opspec["pats"][k]
        opspec["pats"][k] = (ub + [3], ts + [16], ss) if i % 2 else (ub, ts, ss + [64])
        run("snax_alu", "overlong", lambda: l2_overlong_rejected(opspec), {"cfg": spec, "op": opspec, "route": "verify"})

    run("snax_alu", "alu-linalg", l2_alu_linalg, {"route": "linalg.generic", "cfg": [["n", [4], []]] * 3})

    # hwpe: values against names
    fields, hv = impl_hwpe()
    want = {"A": ("ptr", 0), "B": ("ptr", 1), "O": ("ptr", 2), "vector_length": ("dim0", 0), "nr_iters": ("one", 0), "mode": ("one", 0)}
    ctx.count({"L2": "hwpe"}, True, "l2hwpe", "L2-hwpe")
    if len(fields) != len(hv):
        fails.append({"what": "count", "acc": "snax_hwpe_mult", "detail": {"fields": fields, "values": hv}, "klass": None})
    for f, v in zip(fields, hv):
        if want.get(f) != tuple(v):
            swapped = f in ("vector_length", "nr_iters") and tuple(v) == want["nr_iters" if f == "vector_length" else "vector_length"]
            fails.append({"what": "value", "acc": "snax_hwpe_mult", "detail": {"field": f, "want": want.get(f), "got": v},
                          "klass": "hwpe_names_swapped" if swapped else None})
    return _dedup(fails)


def _dedup(fails):
    seen, out = set(), []
    for f in fails:
        d = f.get("detail") or {}
        fld = d.get("field", "")
        k = (f["what"], f.get("acc"), f["klass"], re.sub(r"^[a-z]_", "", fld) if isinstance(fld, str) else "")
        if k not in seen:
            seen.add(k)
            out.append(f)
    return out


def _run_case(f):
    """re-run one recorded L2 case; returns (problems, klass)"""
    acc = f.get("acc")
    spec = [(a, b, c) for (a, b, c) in f.get("cfg", [])]
    opspec = None
    if "op" in f:
        opspec = {"pats": [tuple(p) for p in f["op"]["pats"]], "operands": list(f["op"]["operands"])}
    if acc == "snax_alu" and f.get("route") == "verify":
        return l2_overlong_rejected(opspec), None
    if acc == "snax_alu" and f.get("route") == "linalg.generic":
        return l2_alu_linalg(), None
    if acc == "snax_alu":
        return l2_alu(spec, opspec)
    if acc == "snax_xdma":
        return l2_xdma(spec, opspec, f["body"], f.get("rescale") or {"zpin": 0, "zpout": 0, "mult": [1], "shift": [0], "max": 127, "min": -128, "dr": 0},
                       f.get("through_pass", False))
    if acc == "snax_gemmx":
        return l2_gemmx(spec, f["n"], opspec, f["body"], tuple(f["zp"]), f["rescale"], f.get("through_pass", False))
    if acc == "snax_phs":
        return l2_phs(f, opspec)
    if acc == "snax_hwpe_mult":
        fields, hv = impl_hwpe()
        return [{"what": "value", "fields": fields, "values": hv}] if hv[3][0] == "one" and hv[4][0] == "dim0" else [], "hwpe_names_swapped"
    return [], None


def replay_known(ctx, entry):
    w = entry["witness"]
    try:
        probs, klass = _run_case(w)
    except ValueError as e:   # SetupOp.verify_ (through the pass)
        probs, klass = [{"what": "raised", "error": repr(e)}], entry["class"]
    return bool(probs) and klass == entry["class"]


def replay(ctx, obj):
    f = obj.get("failure")
    if not f:
        print("no failing input recorded; broken obligations:", obj.get("no_longer_checks"))
        return 1
    for k in ("acc", "route", "cfg", "n", "op", "body", "zp", "rescale", "kernels", "order", "use", "tmpl"):
        if k in f:
            print(f"{k}:", f[k])
    try:
        probs, klass = _run_case(f)
    except Exception as e:
        probs, klass = [{"what": "raised", "error": repr(e)}], None
    for p in probs:
        print("FAIL", p, "class:", klass)
    return 1 if probs else 0
