"""C08 — generated configuration values line up with field names.

(H) hand model coq/Model/C08StreamerCfg.v (+ C08Accels.v).
L1: field-name lists and value lists of the real classes (objects constructed directly) against the
    model for fresh random configurations / operations, compared inside Coq by vm_compute.
L2: marker experiment on the implementation only: a snax_stream.streaming_region with pairwise
    distinct markers in every bound/stride position is lowered by the real convert_to_acc_ops (and the
    real convert-linalg-to-accfg pass for the registered accelerators); the constant feeding each
    *named* field of the emitted accfg.setup is read back and compared with what the NAME says
    (independent name parser below, no model involved).
"""
from __future__ import annotations

import re
import string

import vlib
from vlib import coqlist, zlist, zlit

PROPERTY = "C08"
MODEL_TARGETS = ["Model/C08StreamerCfg.vo", "Model/C08Check.vo"]
RULE = ("streamer configurations: 1-5 (rarely 27) streamers, 1-6 temporal dims with n/i/r flags, 1-2 spatial dims, "
        "random ordered subset of the 4 options and 7 extensions; operations: stride patterns with pairwise distinct "
        "marker integers, random zero strides, shorter/longer dimension lists, zero-pointer operands; a case is "
        "non-trivial when the configuration has >= 2 streamers or >= 1 option; distinct = distinct (cfg, op)")
TRUSTED_BASE = [
    "Coq 8.16.1 kernel + vm_compute (no native_compute)",
    "hand model coq/Model/C08StreamerCfg.v of SNAXStreamer.get_streamer_setup_fields/_generate_streamer_setup_vals "
    "(snax.py) and its per-accelerator users, tied by L1 (this harness)",
    "harness/props/c08.py: generators, Coq-literal printer, reading constants back from arith.constant ops, the "
    "independent field-name parser of L2; harness/xdsl_compat.py; xDSL 0.70 (IR construction, pattern rewriter)",
]
ASSUMPTIONS = [
    "SSA values are abstracted to `operand k` / integer constant; i32 wrap-around of constants is not modelled",
    "hardware meaning of each register name is taken from the name (and the SNAX streamer documentation)",
]

FLAGS = {"n": "FNormal", "i": "FIrrelevant", "r": "FReuse"}
EXT_KINDS = ["EMaxPool", "EMemSet", "ETranspose", "ERescaleDown", "ERescaleUp", "EAdd", "EAddLong"]
OPT_KINDS = ["OAddrRemap", "OChanMask", "OByteMask", "OBroadcast"]


# ---------------------------------------------------------------- implementation access
def _impl():
    from snaxc.accelerators.streamers import streamers as S
    from snaxc.accelerators.streamers import extensions as X
    return S, X


def opt_classes():
    S, X = _impl()
    return {
        "OAddrRemap": S.HasAddressRemap, "OChanMask": S.HasChannelMask, "OByteMask": S.HasByteMask,
        "OBroadcast": S.HasBroadcast,
        "EMaxPool": X.MaxPoolExtension, "EMemSet": X.MemSetExtension, "ETranspose": X.TransposeExtension,
        "ERescaleDown": X.RescaleDownExtension, "ERescaleUp": X.RescaleUpExtension,
        "EAdd": X.AddExtension, "EAddLong": X.AddLongExtension,
    }


def mk_cfg(spec, xdma=False):
    """spec = [(flags 'nri..', [spatial], [opt names])] -> StreamerConfiguration"""
    S, _ = _impl()
    oc = opt_classes()
    streamers = [S.Streamer(S.StreamerType.Reader, list(fl), list(sp), [oc[o]() for o in opts]) for (fl, sp, opts) in spec]
    return S.StreamerConfiguration(streamers, S.StreamerSystemType.DmaExt if xdma else S.StreamerSystemType.Regular)


_BARE = None


def bare_streamer_class():
    """A SNAXStreamer with nothing else (get_template is abstract and unused here)."""
    global _BARE
    if _BARE is None:
        from snaxc.accelerators.snax import SNAXStreamer

        class Bare(SNAXStreamer):
            def get_template(self, op):  # pragma: no cover
                raise NotImplementedError

        _BARE = Bare
    return _BARE


def mk_region(opspec, accelerator="acc", body_ops=None, arg_types=None):
    """opspec = {"pats": [(ub, ts, ss)], "operands": ['p' | 'z' | 'c']}  ('p' opaque pointer, 'z' constant 0 index,
    'c' constant 7 index).  Returns (streaming_region_op, pre_ops)."""
    from xdsl.dialects import arith, builtin, test
    from xdsl.dialects.builtin import IndexType
    from xdsl.ir import Block, Region
    from snaxc.dialects import dart
    from snaxc.dialects.snax_stream import StreamingRegionOp, StridePattern
    pre, vals = [], []
    for kind in opspec["operands"]:
        if kind == "p":
            o = test.TestOp(result_types=[IndexType()])
            vals.append(o.res[0])
        else:
            o = arith.ConstantOp.from_int_and_width(0 if kind == "z" else 7, IndexType())
            vals.append(o.result)
        pre.append(o)
    pats = [StridePattern(list(ub), list(ts), list(ss)) for (ub, ts, ss) in opspec["pats"]]
    if arg_types is None:
        arg_types = [dart.StreamType(builtin.i64)] * len(vals)
    block = Block(arg_types=arg_types)
    if body_ops is not None:
        block.add_ops(body_ops(block))
    n_in = max(0, len(vals) - 1)
    op = StreamingRegionOp(vals[:n_in], vals[n_in:], pats, accelerator, Region(block))
    return op, pre


def read_vals(op, vals):
    """[(ops, ssa)] -> [('o', k) | ('c', int)]"""
    from xdsl.dialects import arith
    out = []
    operands = list(op.operands)
    for _, v in vals:
        out.append(read_val(operands, v))
    return out


def read_val(operands, v):
    from xdsl.dialects import arith
    from xdsl.dialects.builtin import IntegerAttr
    for k, o in enumerate(operands):
        if o is v:
            return ("o", k)
    owner = v.owner
    if isinstance(owner, arith.ConstantOp) and isinstance(owner.value, IntegerAttr):
        return ("c", owner.value.value.data)
    return ("?", str(owner.name if hasattr(owner, "name") else owner))


# ---------------------------------------------------------------- generators
class Markers:
    def __init__(self, start=100):
        self.n = start

    def fresh(self):
        self.n += 1
        return self.n


def gen_cfg(rng, xdma=False, big=False):
    n = 27 if big else rng.choice([1, 1, 2, 2, 3, 3, 4, 5])
    if xdma:
        n = 2 if rng.random() < 0.7 else rng.choice([1, 3])
    spec = []
    for _ in range(n):
        td = 1 if big else rng.choice([1, 2, 3, 3, 4, 5, 6])
        flags = "".join(rng.choice("nnnnir") for _ in range(td))
        sp = [rng.choice([1, 2, 4, 8]) for _ in range(rng.choice([1, 1, 2]))]
        pool = OPT_KINDS + EXT_KINDS
        k = 0 if big else rng.choice([0, 1, 2, 3, 4, len(pool)])
        opts = rng.sample(pool, k)
        if rng.random() < 0.1 and opts:
            opts.append(rng.choice(opts))  # duplicated option object
        spec.append((flags, sp, opts))
    return spec


def gen_op(rng, spec, valid_only=False):
    """Stride patterns with pairwise distinct markers; sometimes shorter/longer lists, zero strides."""
    mk = Markers(rng.choice([10, 100, 1000]))
    pats, operands = [], []
    for (flags, sp, opts) in spec:
        td, sd = len(flags), len(sp)
        r = rng.random()
        nt = td if r < 0.5 else rng.randrange(0, td + 1)
        if not valid_only and rng.random() < 0.05:
            nt = td + 1
        ub = [mk.fresh() for _ in range(nt)]
        ts = [mk.fresh() for _ in range(nt)]
        for i in range(len(ts)):
            f = flags[i] if i < td else "n"
            if f == "i" and (valid_only or rng.random() < 0.9):
                ts[i] = 0
            elif f == "r" and rng.random() < 0.6:
                ts[i] = 0
                if rng.random() < 0.3 and i < len(ub):
                    ub[i] = 1
            elif rng.random() < 0.1:
                ts[i] = 0
        ns = sd
        if not valid_only and rng.random() < 0.06:
            ns = rng.choice([sd - 1, sd + 1])
        ss = [mk.fresh() for _ in range(ns)]
        for i in range(len(ss)):
            if rng.random() < 0.2:
                ss[i] = 0
        pats.append((ub, ts, ss))
        operands.append(rng.choice("pppzc"))
    if not valid_only and rng.random() < 0.04:
        if rng.random() < 0.5:
            pats = pats[:-1]
        else:
            operands = operands[:-1]
    return {"pats": pats, "operands": operands}


# ---------------------------------------------------------------- Coq literals
def coq_str(s):
    assert '"' not in s
    return f'"{s}"%string'


def coq_cfg(spec):
    return coqlist(
        f"mkStreamer {coqlist(FLAGS[f] for f in fl)} {zlist(sp)} "
        + coqlist((o if o.startswith("O") else f"OExt {o}") for o in opts)
        for (fl, sp, opts) in spec)


def coq_op(opspec):
    pats = coqlist(f"mkPat {zlist(ub)} {zlist(ts)} {zlist(ss)}" for (ub, ts, ss) in opspec["pats"])
    zeros = coqlist(("true" if k == "z" else "false") for k in opspec["operands"])
    return f"(mkSop {pats} {zeros})"


def coq_vals(vals):
    if vals is None:
        return "None"
    items = []
    for kind, x in vals:
        if kind == "o":
            items.append(f"VOperand {x}")
        elif kind == "c":
            items.append(f"VConst {zlit(x)}")
        else:
            items.append("VOperand 999")  # unmodelled SSA value: forces a disagreement
    return "(Some " + coqlist(items) + ")"


def nontrivial(spec):
    return len(spec) >= 2 or any(opts for (_, _, opts) in spec)


# ---------------------------------------------------------------- L1
def impl_regular(spec, opspec):
    """(field names, values or None) from the real SNAXStreamer methods."""
    Bare = bare_streamer_class()
    acc = Bare(mk_cfg(spec))
    fields = list(acc.streamer_setup_fields)
    op, _ = mk_region(opspec)
    try:
        vals = read_vals(op, acc._generate_streamer_setup_vals(op))
    except (IndexError, AssertionError):
        vals = None
    return fields, vals


HEADER = ("From Snax Require Import Base.Prelude Model.C08StreamerCfg Model.C08Check.\n"
          "From Coq Require Import String.\n")


def run_groups(name, groups, chunk=40, par=8, header=HEADER):
    """groups = [(kind, coq test function, [case literal], [meta])]; shards every group into cases files of
    `chunk` cases, evaluates them in parallel, returns the disagreements."""
    texts, index = [], []
    for kind, test, cases, meta in groups:
        for a in range(0, len(cases), chunk):
            part = cases[a:a + chunk]
            texts.append(header + f"Definition cases := {coqlist(part)}.\nEval vm_compute in failing ({test}) cases.\n")
            index.append((kind, a, cases, meta))
    dis = []
    for (ok, out), (kind, a, cases, meta) in zip(vlib.coq_eval_many(name, texts, timeout=900, par=par), index):
        lists = vlib.parse_all_eval_lists(out)
        if not ok or len(lists) != 1:
            dis.append({"name": f"cases-file:{kind}", "detail": out[-2000:]})
            continue
        for idx in lists[0]:
            dis.append({"name": f"L1:{kind}", "case": meta[a + idx], "coq_case": cases[a + idx][:800]})
    return dis


def correspondence(ctx):
    rng = ctx.rng
    oc = opt_classes()
    groups = []

    # csr_length of every extension class
    lens = [f"({e}, {oc[e]().csr_length}%nat)" for e in EXT_KINDS]
    groups.append(("len", "chk_len", lens, list(EXT_KINDS)))
    for e in EXT_KINDS:
        ctx.count({"csr_length": e}, False, None, "csr_length")

    # regular system
    n = ctx.n(250, 3000)
    cases, meta = [], []
    for i in range(n):
        spec = gen_cfg(rng, big=(i % 97 == 96))
        opspec = gen_op(rng, spec)
        fields, vals = impl_regular(spec, opspec)
        cases.append(f"({coq_cfg(spec)}, {coq_op(opspec)}, {coqlist(coq_str(f) for f in fields)}, {coq_vals(vals)})")
        meta.append({"cfg": spec, "op": opspec, "fields": fields, "vals": vals})
        ctx.count({"kind": "regular", "cfg": spec, "op": opspec, "raised": vals is None}, nontrivial(spec),
                  f"reg{spec}{opspec}", "regular" if vals is not None else "regular-raises")
    groups.append(("regular", "chk_regular", cases, meta))

    return run_groups("c08", groups)


# ---------------------------------------------------------------- L2: the property on the implementation
NAME_RE = re.compile(r"^([a-z])_(ptr_low|ptr_high|sstride_(\d+)|bound_(\d+)|tstride_(\d+)|address_remap|channel_mask|"
                     r"transpose|broadcast)$")
ZERO_ADDRESS = 0x1000_0040


def expected_by_name(name, spec, opspec):
    """What the register called `name` must receive according to the property statement.  Returns
    ('o', k) / ('c', int) or None when the name is not a streamer field."""
    m = NAME_RE.match(name)
    if not m:
        return None
    s = string.ascii_lowercase.index(m.group(1))
    flags, sp, opts = spec[s]
    ub, ts, ss = opspec["pats"][s]
    zero = opspec["operands"][s] == "z"
    kind = m.group(2)
    if kind == "ptr_low":
        return ("c", ZERO_ADDRESS) if zero else ("o", s)
    if kind in ("ptr_high", "address_remap", "transpose"):
        return ("c", 0)
    if kind.startswith("sstride_"):
        return ("c", ss[int(m.group(3))])
    if kind.startswith("bound_"):
        i = int(m.group(4))
        b = ub[i] if i < len(ub) else 1
        t = ts[i] if i < len(ts) else 0
        if flags[i] == "r" and t == 0 and b > 1:
            b = 1   # internally reused dimension collapsed
        return ("c", b)
    if kind.startswith("tstride_"):
        i = int(m.group(5))
        return ("c", ts[i] if i < len(ts) else 0)
    if kind == "channel_mask":
        return ("c", 0 if zero else -1)
    if kind == "broadcast":
        return ("c", 1 if any(x == 0 for x in ss[:len(sp)]) else 0)
    return None


def check_setup(names, got, spec, opspec, extra=None):
    """names/got: parallel lists from the emitted accfg.setup.  Returns list of problems."""
    probs = []
    if len(names) != len(got):
        probs.append({"what": "count", "fields": len(names), "values": len(got)})
    for name, g in zip(names, got):
        want = expected_by_name(name, spec, opspec)
        if want is None and extra is not None:
            want = extra(name)
        if want is None:
            probs.append({"what": "unknown-field", "field": name})
        elif want != g and want != ("any",):
            probs.append({"what": "value", "field": name, "want": want, "got": g})
    return probs


def lower_with(acc, op):
    """Run the real convert_to_acc_ops and read the accfg.setup back."""
    from snaxc.dialects import accfg
    ops = acc.convert_to_acc_ops(op)
    setup = [o for o in ops if isinstance(o, accfg.SetupOp)][0]
    names = [p.data for p in setup.param_names]
    operands = list(op.operands)
    got = [read_val(operands, v) for v in setup.values]
    return names, got


def l2_alu(spec, opspec):
    from snaxc.accelerators.snax_alu import SNAXAluAccelerator
    acc = SNAXAluAccelerator(mk_cfg(spec))
    op, _ = mk_region(opspec, "snax_alu")
    names, got = lower_with(acc, op)

    def extra(name):
        if name == "alu_mode":
            return ("c", 0)
        if name == "loop_bound_alu":
            return ("c", opspec["pats"][0][0][0])
        return None

    return check_setup(names, got, spec, opspec, extra)


def search(ctx, deep=False):
    rng = ctx.rng
    fails = []
    n = ctx.n(150, 2000) * (3 if deep else 1)
    for i in range(n):
        spec = gen_cfg(rng)
        opspec = gen_op(rng, spec, valid_only=True)
        if not opspec["pats"][0][0]:
            opspec["pats"][0] = ([7], [9], opspec["pats"][0][2])   # alu reads upper_bounds[0] of operand 0
            if spec[0][0][0] == "i":
                opspec["pats"][0] = ([7], [0], opspec["pats"][0][2])
        try:
            probs = l2_alu(spec, opspec)
        except Exception as e:
            probs = [{"what": "raised", "error": repr(e)[:300]}]
        ctx.count({"L2": "alu-custom-cfg", "cfg": spec, "op": opspec}, nontrivial(spec), f"l2alu{spec}{opspec}", "L2-alu")
        for p in probs:
            fails.append({"what": p["what"], "acc": "snax_alu", "cfg": spec, "op": opspec, "detail": p, "klass": None})
    return _dedup(fails)


def _dedup(fails):
    seen, out = set(), []
    for f in fails:
        k = (f["what"], f.get("acc"), f["klass"], f["detail"].get("field", "")[2:] if isinstance(f.get("detail"), dict) else "")
        if k not in seen:
            seen.add(k)
            out.append(f)
    return out


def replay_known(ctx, entry):
    return False


def replay(ctx, obj):
    f = obj.get("failure")
    if not f:
        print("no failing input recorded; broken obligations:", obj.get("no_longer_checks"))
        return 1
    spec = [(a, b, c) for (a, b, c) in f["cfg"]]
    opspec = {"pats": [tuple(p) for p in f["op"]["pats"]], "operands": f["op"]["operands"]}
    print("cfg:", spec)
    print("op :", opspec)
    probs = l2_alu(spec, opspec) if f.get("acc") == "snax_alu" else []
    for p in probs:
        print("FAIL", p)
    return 1 if probs else 0
