"""Harness-side compatibility shim (trusted base, nothing in /repo changes).

/venv has xDSL 0.70.0 while the repo pins a git commit of xDSL.  The only
incompatibility is `irdl_options = [...]` (a list; 0.70 wants a tuple) in five op
classes.  We wrap `irdl_op_definition` to coerce the attribute along the MRO
before the original decorator runs.  Must be imported before `snaxc.dialects.*`.
Also installs a stub for the absent `minimalloc` package.
"""
import sys

import xdsl.irdl as _irdl
import xdsl.irdl.operations as _ops

_orig = _ops.irdl_op_definition


def _patched(cls):
    for k in cls.mro():
        if "irdl_options" in k.__dict__ and isinstance(k.__dict__["irdl_options"], list):
            setattr(k, "irdl_options", tuple(k.__dict__["irdl_options"]))
    return _orig(cls)


if not getattr(_ops, "_snax_verif_patched", False):
    _ops.irdl_op_definition = _patched
    _irdl.irdl_op_definition = _patched
    _ops._snax_verif_patched = True

if "minimalloc" not in sys.modules:
    try:
        import minimalloc  # noqa: F401
    except Exception:
        import minimalloc_stub

        sys.modules["minimalloc"] = minimalloc_stub
