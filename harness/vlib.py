"""Common machinery for every ./check Cxx run.  See CONTRIBUTING.md.

Environment:
  SNAX_REPO   path of the snax-mlir tree to check (default /repo)
  VERIF_SEED  integer seed for every random choice (default 0)
  VERIF_TIER  quick|thorough (overridden by the command-line tier)
"""
from __future__ import annotations

import fcntl
import hashlib
import json
import os
import random
import re
import subprocess
import sys
import time
from pathlib import Path

VERIF = Path(__file__).resolve().parent.parent
REPO = Path(os.environ.get("SNAX_REPO", "/repo")).resolve()
COQ = VERIF / "coq"
EVID = Path(os.environ.get("VERIF_EVIDENCE_DIR", str(VERIF / "evidence")))  # mutant runs redirect this
REPLAYS = Path(os.environ.get("VERIF_REPLAY_DIR", str(VERIF / "replays")))
KNOWN_FILE = VERIF / "known_findings.json"
COQFLAGS = ["-Q", str(COQ), "Snax"]
GUARD = "SNAX_MLIR_VERIF"

FORBIDDEN = re.compile(
    r"\b(Admitted|admit|Axiom|Axioms|Parameter|Parameters|Conjecture|Conjectures|Admit Obligations|"
    r"Unset Guard Checking|Unset Positivity Checking|Unset Universe Checking|bypass_check|"
    r"Guard Checking|Positivity Checking|Universe Checking|type-in-type|impredicative-set|native_compute|hammer)\b"
)
# `Variable`/`Hypothesis`/`Context` are only allowed inside a Section: checked separately.
SECTION_ONLY = re.compile(r"^\s*(Variable|Variables|Hypothesis|Hypotheses|Context)\b")


class TranslatorError(Exception):
    """Raised by a (T) generator when the source leaves the translated subset."""


class Ctx:
    def __init__(self, prop: str, tier: str):
        self.prop = prop
        self.tier = tier
        self.seed = int(os.environ.get("VERIF_SEED", "0") or 0)
        self.rng = random.Random(self.seed * 1000003 + sum(map(ord, prop)))
        self.repo = REPO
        self.t0 = time.time()
        self.evaluations = 0
        self.nontrivial_keys: set[str] = set()
        self.samples: list = []
        self.histogram: dict[str, int] = {}
        self.extra: dict = {}
        self.rule = ""
        self.broken: list[dict] = []  # obligations that no longer check
        self.notes: list[str] = []

    @property
    def thorough(self) -> bool:
        return self.tier == "thorough"

    def n(self, quick: int, thorough: int) -> int:
        return thorough if self.thorough else quick

    def count(self, case, nontrivial: bool = True, key: str | None = None, kind: str | None = None):
        """Record one evaluated case for the evidence file."""
        self.evaluations += 1
        if kind:
            self.histogram[kind] = self.histogram.get(kind, 0) + 1
        if nontrivial:
            k = key if key is not None else json.dumps(case, sort_keys=True, default=str)
            self.nontrivial_keys.add(hashlib.sha1(k.encode()).hexdigest())
        if len(self.samples) < 5:
            self.samples.append(case)

    def elapsed(self) -> float:
        return time.time() - self.t0


# ----------------------------------------------------------------------------
# gate


def strip_comments(text: str) -> str:
    out, depth, i = [], 0, 0
    while i < len(text):
        if text.startswith("(*", i):
            depth += 1
            i += 2
        elif text.startswith("*)", i) and depth > 0:
            depth -= 1
            i += 2
        else:
            if depth == 0:
                out.append(text[i])
            elif text[i] == "\n":
                out.append("\n")
            i += 1
    return "".join(out)


def coq_closure(prop: str) -> list[Path]:
    """Files that Props/<prop>.v transitively requires inside the Snax logical root."""
    seen: dict[Path, None] = {}
    todo = [COQ / "Props" / f"{prop}.v"]
    while todo:
        f = todo.pop()
        if f in seen or not f.exists():
            continue
        seen[f] = None
        txt = strip_comments(f.read_text())
        for sentence in re.split(r"\.\s", txt):
            m = re.match(r"\s*(?:From\s+Snax\s+)?Require\s+(?:Import\s+|Export\s+)?(.*)$", sentence.strip(), re.S)
            if not m:
                continue
            for name in m.group(1).split():
                name = name.removeprefix("Snax.")
                cand = COQ / (name.replace(".", "/") + ".v")
                if cand.exists():
                    todo.append(cand)
    return list(seen)


def gate(paths: list[Path] | None = None, prop: str | None = None) -> list[str]:
    """Return a list of offences (empty = clean): over the dependency closure of Props/<prop>.v when
    `prop` is given, else over the whole Coq tree (tools/validate.py runs the development-wide scan)."""
    offences = []
    if paths is not None:
        files = paths
    elif prop is not None:
        files = coq_closure(prop)
    else:
        files = [p for p in COQ.rglob("*.v") if "Cases" not in p.parts]
    for f in files:
        txt = strip_comments(f.read_text())
        sec_depth = 0
        for ln, line in enumerate(txt.splitlines(), 1):
            if re.match(r"^\s*(Section|Module)\b", line) and re.match(r"^\s*Section\b", line):
                sec_depth += 1
            elif re.match(r"^\s*End\b", line) and sec_depth > 0:
                sec_depth -= 1
            m = FORBIDDEN.search(line)
            if m:
                offences.append(f"{f.relative_to(VERIF)}:{ln}: forbidden token {m.group(0)!r}")
            if sec_depth == 0 and SECTION_ONLY.match(line):
                offences.append(f"{f.relative_to(VERIF)}:{ln}: {line.strip().split()[0]} outside a Section")
    proj = COQ / "_CoqProject"
    if proj.exists() and re.search(r"type-in-type|impredicative-set|-vos|-vok|-noinit", proj.read_text()):
        offences.append("_CoqProject: forbidden flag")
    return offences


# ----------------------------------------------------------------------------
# Coq build / evaluation


def write_if_changed(path: Path, text: str) -> bool:
    path = Path(path)
    if path.exists() and path.read_text() == text:
        return False
    path.parent.mkdir(parents=True, exist_ok=True)
    path.write_text(text)
    return True


class _Lock:
    def __enter__(self):
        self.f = open(COQ / ".lock", "w")
        fcntl.flock(self.f, fcntl.LOCK_EX)
        return self

    def __exit__(self, *a):
        fcntl.flock(self.f, fcntl.LOCK_UN)
        self.f.close()


def mkproject():
    subprocess.run(["bash", str(COQ / "mkproject.sh")], check=True, cwd=COQ, stdout=subprocess.DEVNULL)


def coq_make(targets: list[str], timeout: int = 1500, jobs: int = 16) -> tuple[bool, str]:
    """Full .vo build of the given targets (relative to coq/). Returns (ok, log).
    Only the regeneration of _CoqProject/Makefile is serialised; make itself runs unlocked so that one
    slow build cannot stall the checks of other properties."""
    with _Lock():
        mkproject()
    cmd = ["timeout", str(timeout), "make", "-C", str(COQ), f"-j{jobs}", "--no-print-directory", *targets]
    p = subprocess.run(cmd, stdout=subprocess.PIPE, stderr=subprocess.STDOUT, text=True)
    return p.returncode == 0, p.stdout


def coqc(path: Path, timeout: int = 600) -> tuple[bool, str]:
    """Compile one file with coqc, return (ok, stdout+stderr)."""
    cmd = ["timeout", str(timeout), "coqc", *COQFLAGS, str(path)]
    p = subprocess.run(cmd, stdout=subprocess.PIPE, stderr=subprocess.STDOUT, text=True, cwd=COQ)
    return p.returncode == 0, p.stdout


def coq_eval(name: str, text: str, timeout: int = 600) -> tuple[bool, str]:
    """Compile a throw-away Cases/<name>_<pid>.v (for `Eval vm_compute`), return (ok, output)."""
    d = COQ / "Cases"
    d.mkdir(exist_ok=True)
    base = f"{name}_{os.getpid()}"
    f = d / f"{base}.v"
    f.write_text(text)
    try:
        return coqc(f, timeout)
    finally:
        for ext in (".v", ".vo", ".vok", ".vos", ".glob"):
            try:
                (d / (base + ext)).unlink()
            except FileNotFoundError:
                pass
        try:
            (d / f".{base}.aux").unlink()
        except FileNotFoundError:
            pass


def coq_eval_many(name: str, texts: list[str], timeout: int = 600, par: int = 8) -> list[tuple[bool, str]]:
    """Several cases files in parallel."""
    from concurrent.futures import ThreadPoolExecutor

    with ThreadPoolExecutor(max_workers=par) as ex:
        return list(ex.map(lambda it: coq_eval(f"{name}{it[0]}", it[1], timeout), enumerate(texts)))


def parse_eval_list(out: str) -> list[int] | None:
    """Parse the output of `Eval vm_compute in (<list of nat/Z>)` : '= [1; 2]' or '= []' (first one)."""
    m = re.search(r"=\s*(\[[^\]]*\]|nil)", out, re.S)
    if not m:
        return None
    body = m.group(1)
    if body == "nil":
        return []
    return [int(x) for x in re.findall(r"-?\d+", body)]


def parse_all_eval_lists(out: str) -> list[list[int]]:
    res = []
    for m in re.finditer(r"=\s*(\[[^\]]*\]|nil)\s*:\s*list", out, re.S):
        body = m.group(1)
        res.append([] if body == "nil" else [int(x) for x in re.findall(r"-?\d+", body)])
    return res


def props_assumptions(prop: str) -> tuple[bool, dict[str, str], str]:
    """Re-run coqc on Props/<prop>.v and parse the `Print Assumptions` blocks.
    Returns (ok, {theorem: 'closed' | axiom text}, raw output)."""
    f = COQ / "Props" / f"{prop}.v"
    ok, out = coqc(f)
    src = strip_comments(f.read_text())
    names = re.findall(r"Print Assumptions\s+([A-Za-z0-9_'.]+)\s*\.", src)
    blocks = re.split(r"(?=Closed under the global context|Axioms:)", out)
    blocks = [b for b in blocks if b.startswith("Closed under") or b.startswith("Axioms:")]
    res = {}
    for i, nme in enumerate(names):
        if i < len(blocks):
            b = blocks[i].strip()
            res[nme] = "closed" if b.startswith("Closed under") else " ".join(b.split())
        else:
            res[nme] = "MISSING"
    return ok, res, out


def count_theorems(prop: str) -> list[str]:
    src = strip_comments((COQ / "Props" / f"{prop}.v").read_text())
    return re.findall(r"^\s*(?:Theorem|Lemma|Corollary|Example)\s+([A-Za-z0-9_']+)", src, re.M)


# ----------------------------------------------------------------------------
# Coq literal printers


def zlit(n: int) -> str:
    return f"({n})%Z" if n < 0 else f"{n}%Z"


def zlist(xs) -> str:
    return "[" + "; ".join(zlit(int(x)) for x in xs) + "]"


def zlistlist(xss) -> str:
    return "[" + "; ".join(zlist(xs) for xs in xss) + "]"


def natlit(n: int) -> str:
    assert 0 <= n < 5000
    return f"{n}%nat"


def optz(x) -> str:
    return "None" if x is None else f"(Some {zlit(int(x))})"


def boollit(b) -> str:
    return "true" if b else "false"


def coqlist(items) -> str:
    return "[" + "; ".join(items) + "]"


# ----------------------------------------------------------------------------
# known findings, violations, evidence


def load_known(prop: str) -> list[dict]:
    if not KNOWN_FILE.exists():
        return []
    data = json.loads(KNOWN_FILE.read_text())
    return [e for e in data.get("findings", []) if e.get("property") == prop]


def write_replay(prop: str, obj: dict) -> Path:
    d = REPLAYS / prop
    d.mkdir(parents=True, exist_ok=True)
    txt = json.dumps(obj, indent=1, sort_keys=True, default=str)
    h = hashlib.sha1(txt.encode()).hexdigest()[:12]
    p = d / f"{h}.json"
    p.write_text(txt)
    return p


def violation(prop: str, replay: Path, no_input: bool = False):
    line = f"VIOLATION property={prop} replay={replay}"
    if no_input:
        line += " no-failing-input-found"
    print(line, flush=True)


def known_line(prop: str, what: str):
    print(f"KNOWN-FINDING: property={prop} {what}", flush=True)


def write_evidence(ctx: Ctx, *, obligations: list[str], discharged: list[str], checker_cmd: str,
                   trusted_base: list[str], assumptions: list[str], violations: int):
    EVID.mkdir(parents=True, exist_ok=True)
    cov = {
        "obligations": max(1, len(obligations)) if obligations else 0,
        "discharged": len(discharged),
        "obligation_names": obligations,
        "discharged_names": discharged,
        "checker_cmd": checker_cmd,
        "trusted_base": trusted_base,
        "evaluations": ctx.evaluations,
        "distinct_nontrivial": len(ctx.nontrivial_keys),
        "rule": ctx.rule,
        "samples": ctx.samples if ctx.samples else obligations[:5],
        "input_histogram": ctx.histogram,
        "broken_obligations": ctx.broken,
        "notes": ctx.notes,
        "repo": str(ctx.repo),
    }
    cov.update(ctx.extra)
    ev = {
        "property_id": ctx.prop,
        "tier": ctx.tier,
        "seed": ctx.seed,
        "level": "proof",
        "coverage": cov,
        "assumptions": assumptions,
        "wall_s": round(ctx.elapsed(), 2),
        "violations": violations,
    }
    (EVID / f"{ctx.prop}.json").write_text(json.dumps(ev, indent=1, default=str))


def repo_file_hash(rel: str) -> str:
    return hashlib.sha1((REPO / rel).read_bytes()).hexdigest()[:12]


def setup_impl_path():
    """Make `import snaxc` resolve to REPO and install the compat shims."""
    sys.path[:0] = [str(REPO), str(VERIF / "harness"), str(VERIF / "translator")]
    os.environ.setdefault(GUARD, "1")
    import xdsl_compat  # noqa: F401
