"""./check Cxx quick|thorough   |   ./check Cxx --replay <file>

Pipeline (DESIGN.md §3.4):
 0 gate            forbidden tokens in the Coq tree
 1 generate        (T) regenerate coq/Gen/*.v from $SNAX_REPO (fail-closed translator)
 2 prove           full .vo build of Props/Cxx.vo, `Print Assumptions` parsed
 3 correspondence  (H) model vs implementation on fresh inputs (L1)
 4 search          property-level search on the implementation (L2) + known-finding replay
A broken 1/2/3 is reported as VIOLATION (with a failing input when 4 finds one outside the
known classes, `no-failing-input-found` otherwise).
"""
from __future__ import annotations

import importlib
import json
import sys
import traceback

import vlib
from vlib import Ctx, TranslatorError


def main(argv):
    if len(argv) < 2:
        print(__doc__)
        return 2
    prop = argv[0]
    if argv[1] == "--replay":
        vlib.setup_impl_path()
        plugin = importlib.import_module(f"props.{prop.lower()}")
        ctx = Ctx(prop, "quick")
        obj = json.loads(open(argv[2]).read())
        return plugin.replay(ctx, obj)
    tier = argv[1]
    assert tier in ("quick", "thorough"), tier
    vlib.setup_impl_path()
    ctx = Ctx(prop, tier)
    plugin = importlib.import_module(f"props.{prop.lower()}")
    ctx.rule = getattr(plugin, "RULE", "")
    trusted = list(getattr(plugin, "TRUSTED_BASE", []))
    assumptions = list(getattr(plugin, "ASSUMPTIONS", []))

    import time as _t
    phases = {}
    _t0 = _t.time()
    # 0 gate -----------------------------------------------------------------
    off = vlib.gate(prop=prop)
    if off:
        ctx.broken.append({"kind": "gate", "name": "forbidden-token", "detail": off[:20]})

    phases['gate'] = round(_t.time() - _t0, 1); _t0 = _t.time()
    # 1 generate ---------------------------------------------------------------
    gen_ok = True
    if hasattr(plugin, "generate"):
        # coq/Gen/*.v is shared: a run that regenerates it holds an exclusive lock until it exits, so that a
        # concurrent run (e.g. a mutant run with another SNAX_REPO) cannot swap the generated model under it
        import fcntl
        _genlock = open(vlib.COQ / ".genlock", "w")
        fcntl.flock(_genlock, fcntl.LOCK_EX)
        ctx._genlock = _genlock  # keep the descriptor alive for the whole run
        try:
            plugin.generate(ctx)
        except TranslatorError as e:
            gen_ok = False
            ctx.broken.append({"kind": "translator", "name": getattr(e, "what", "translator"), "detail": str(e)})
        except Exception as e:  # a crash of the generator is fail-closed too
            gen_ok = False
            ctx.broken.append({"kind": "translator", "name": "generator-crash", "detail": traceback.format_exc()[-2000:]})

    phases['generate'] = round(_t.time() - _t0, 1); _t0 = _t.time()
    # 2 prove ------------------------------------------------------------------
    theorems = vlib.count_theorems(prop)
    discharged: list[str] = []
    model_ok = True
    model_targets = list(getattr(plugin, "MODEL_TARGETS", []))
    if model_targets:
        ok, log = vlib.coq_make(model_targets)
        if not ok:
            model_ok = False
            ctx.broken.append({"kind": "model-build", "name": ",".join(model_targets), "detail": log[-3000:]})
    ok, log = vlib.coq_make([f"Props/{prop}.vo"])
    checker_cmd = f"make -C coq Props/{prop}.vo && coqc -Q coq Snax coq/Props/{prop}.v   (Coq 8.16.1, full .vo build)"
    ass: dict[str, str] = {}
    if ok:
        ok2, ass, raw = vlib.props_assumptions(prop)
        if ok2:
            discharged = list(theorems)
        else:
            ctx.broken.append({"kind": "proof", "name": f"Props/{prop}.v", "detail": raw[-3000:]})
        allowed = set(getattr(plugin, "ALLOWED_AXIOMS", []))
        for th, a in ass.items():
            if a != "closed" and not all(x in allowed for x in _axiom_names(a)):
                ctx.broken.append({"kind": "assumptions", "name": th, "detail": a})
    else:
        ctx.broken.append({"kind": "proof", "name": _failing_file(log), "detail": log[-3000:]})
    trusted.append("Print Assumptions: " + json.dumps(ass, sort_keys=True))
    if ctx.thorough and ok and getattr(plugin, "COQCHK", True):
        okc, outc = _coqchk(prop)
        ctx.extra["coqchk"] = outc[-1500:]
        if not okc:
            ctx.broken.append({"kind": "coqchk", "name": f"Props/{prop}.vo", "detail": outc[-2000:]})

    phases['prove'] = round(_t.time() - _t0, 1); _t0 = _t.time()
    # 3 correspondence -----------------------------------------------------------
    disagreements: list[dict] = []
    if model_ok and hasattr(plugin, "correspondence"):
        try:
            disagreements = plugin.correspondence(ctx) or []
        except Exception:
            ctx.broken.append({"kind": "correspondence", "name": "harness-crash", "detail": traceback.format_exc()[-3000:]})
        if disagreements:
            ctx.broken.append({"kind": "correspondence", "name": disagreements[0].get("name", "L1"),
                               "detail": disagreements[:3], "count": len(disagreements)})
    ctx.extra["disagreements_checked"] = ctx.evaluations
    ctx.extra["disagreements"] = len(disagreements)

    phases['correspondence'] = round(_t.time() - _t0, 1); _t0 = _t.time()
    # 4 search + known findings ------------------------------------------------
    failures: list[dict] = []
    if hasattr(plugin, "search"):
        try:
            failures = plugin.search(ctx, deep=bool(ctx.broken)) or []
        except Exception:
            ctx.broken.append({"kind": "search", "name": "harness-crash", "detail": traceback.format_exc()[-3000:]})
    phases['search'] = round(_t.time() - _t0, 1)
    ctx.extra['phase_seconds'] = phases
    known = vlib.load_known(prop)
    known_classes = {e["class"] for e in known}
    for e in known:
        rep = True
        if hasattr(plugin, "replay_known"):
            try:
                rep = plugin.replay_known(ctx, e)
            except Exception:
                rep = False
                ctx.notes.append(f"known finding {e.get('id')} replay crashed: " + traceback.format_exc()[-500:])
        if rep:
            vlib.known_line(prop, f"{e.get('id')} [{e.get('class')}] {e.get('what')}")
        else:
            ctx.notes.append(f"known finding {e.get('id')} no longer reproduces on its witness")
    new_failures = [f for f in failures if f.get("klass") not in known_classes]
    ctx.extra["failures_in_known_classes"] = len(failures) - len(new_failures)

    nviol = 0
    if new_failures:
        nviol = len(new_failures)
        f = new_failures[0]
        rp = vlib.write_replay(prop, {"property": prop, "seed": ctx.seed, "tier": tier, "failure": f,
                                      "broken_obligations": ctx.broken,
                                      "command": f"./check {prop} --replay <this file>"})
        vlib.violation(prop, rp)
    elif ctx.broken:
        nviol = 1
        rp = vlib.write_replay(prop, {"property": prop, "seed": ctx.seed, "tier": tier, "failure": None,
                                      "no_longer_checks": ctx.broken,
                                      "explanation": "a proof obligation / generated definition / correspondence no longer checks; "
                                                     "the search found no failing input outside the known classes"})
        vlib.violation(prop, rp, no_input=True)

    vlib.write_evidence(ctx, obligations=theorems, discharged=discharged, checker_cmd=checker_cmd,
                        trusted_base=trusted, assumptions=assumptions, violations=nviol)
    print(f"[{prop} {tier}] obligations={len(theorems)} discharged={len(discharged)} evaluations={ctx.evaluations} "
          f"distinct_nontrivial={len(ctx.nontrivial_keys)} broken={len(ctx.broken)} failures={len(failures)} "
          f"wall={ctx.elapsed():.1f}s phases={phases}", flush=True)
    if ctx.broken:
        for b in ctx.broken:
            print("  broken:", b["kind"], b["name"], flush=True)
            d = b["detail"]
            print("   ", (d if isinstance(d, str) else json.dumps(d, default=str))[-1200:], flush=True)
    return 1 if nviol else 0


def _axiom_names(a: str):
    import re
    return re.findall(r"([A-Za-z0-9_.']+)\s*:", a.replace("Axioms:", ""))


def _failing_file(log: str) -> str:
    import re
    m = re.findall(r'File "([^"]+)", line (\d+)', log)
    if m:
        return f"{m[-1][0]}:{m[-1][1]}"
    return "make"


def _coqchk(prop: str):
    import subprocess
    cmd = ["timeout", "900", "coqchk", "-silent", "-o", "-Q", str(vlib.COQ), "Snax", f"Snax.Props.{prop}"]
    p = subprocess.run(cmd, stdout=subprocess.PIPE, stderr=subprocess.STDOUT, text=True, cwd=vlib.COQ)
    return p.returncode == 0, p.stdout


class CheckTimeout(Exception):
    pass


def _on_alarm(signum, frame):
    raise CheckTimeout()


if __name__ == "__main__":
    import os
    import signal
    _argv = sys.argv[1:]
    # watchdog: a hang of the implementation (or of the harness) must end in a report, not in silence
    _tier = _argv[1] if len(_argv) > 1 else "quick"
    _limit = int(os.environ.get("VERIF_TIMEOUT", "7200" if _tier == "thorough" else "1800"))
    signal.signal(signal.SIGALRM, _on_alarm)
    signal.alarm(_limit)
    try:
        rc = main(_argv)
    except CheckTimeout:
        prop = _argv[0]
        rp = vlib.write_replay(prop, {"property": prop, "failure": None, "no_longer_checks": [
            {"kind": "timeout", "name": "check-watchdog",
             "detail": f"the check did not finish within {_limit} s (VERIF_TIMEOUT): the implementation or the "
                       "harness hangs on some generated input; traceback of the interrupted frame follows",
             "traceback": traceback.format_exc()[-3000:]}]})
        vlib.violation(prop, rp, no_input=True)
        rc = 1
    sys.exit(rc)
