"""Stub for the absent `minimalloc` package (trusted base; the real solver is an
oracle in the C11 model).  First-fit over buffers ordered by id; records every
Problem handed to it in `PROBLEMS` so the harness can read lifetimes back."""
PROBLEMS = []


class Buffer:
    def __init__(self, id, start_time=0, end_time=0, size=0, alignment=1):
        self.id = id
        self.start_time = start_time
        self.end_time = end_time
        self.size = size
        self.alignment = alignment

    def __repr__(self):
        return f"Buffer({self.id!r},{self.start_time},{self.end_time},{self.size},{self.alignment})"


class Problem:
    def __init__(self, buffers, capacity):
        self.buffers = list(buffers)
        self.capacity = capacity
        PROBLEMS.append(self)

    def solve(self):
        placed = []  # (start,end,off,size)
        offs = []
        for b in self.buffers:
            off = 0
            al = max(1, b.alignment)
            while True:
                clash = None
                for (s, e, o, sz) in placed:
                    if s < b.end_time and b.start_time < e and o < off + b.size and off < o + sz:
                        clash = o + sz
                        break
                if clash is None:
                    break
                off = -(-clash // al) * al
            if off + b.size > self.capacity:
                raise RuntimeError("minimalloc stub: out of capacity")
            placed.append((b.start_time, b.end_time, off, b.size))
            offs.append(off)
        return offs
