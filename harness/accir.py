"""accir — trusted, structural converter  xDSL module -> abstract accfg IR (coq/Model/AccIR.v)
and the program generator for the "lowering form" (C01 C04 C06 C07).

Converter (trusted base; keep it structural):
    names = Names()                       # persistent id tables (share it between the before/after
                                          # conversions of one module so accelerators/fields/tags and
                                          # surviving SSA values keep their ids)
    progs = convert_module(mod, names)    # {func name: prog dict}   (functions with a body only)
    to_coq(prog)                          # Coq literal `mkProg [...] [...]` (format: top of AccIR.v)
    to_json(prog)                         # the same structure as plain JSON-able dicts (it already is)

prog dict:   {"params": [val...], "body": [stmt...]}
stmt dicts:  {"op":"pure","dst":v,"exp":["const",z]|["id",a]|["bin",OP,a,b]|["cmp",OP,a,b]|["select",c,a,b]}
             {"op":"call","tag":t,"eff":bool,"pure":bool,"dsts":[v],"args":[v]}
             {"op":"setup","acc":a,"out":v,"in":v|None,"fields":[[f,v]...]}
             {"op":"launch","acc":a,"tok":v,"state":v,"fields":[[f,v]...]}
             {"op":"await","acc":a,"tok":v}      {"op":"reset","acc":a,"state":v}
             {"op":"for","iv":v,"lb":v,"ub":v,"step":v,"iters":[[barg,init,ty]...],"results":[v],"body":[..],"yields":[v]}
             {"op":"if","cond":v,"results":[[v,ty]...],"then":[..],"then_y":[v],"else":[..],"else_y":[v]}
ty:          "int" | ["state", a]

`eff` is computed HERE (not by calling snaxc.inference.helpers.has_accfg_effects): attribute
`accfg.effects` present -> it is not <none>; absent -> the op is func.call / llvm.call.
`pure` = xdsl.traits.is_side_effect_free(op).
Anything with regions other than scf.for / scf.if raises Unsupported (except the one-operand, result-free
`test.op` with a single region used by notes/probe_c07_region_op.mlir, read as a conditional execution).
"""
from __future__ import annotations

import io

BINOPS = {
    "arith.addi": "BAdd", "arith.subi": "BSub", "arith.muli": "BMul", "arith.divsi": "BDivS",
    "arith.remsi": "BRemS", "arith.floordivsi": "BFloorDiv", "arith.minsi": "BMin", "arith.maxsi": "BMax",
    "arith.andi": "BAnd", "arith.ori": "BOr", "arith.xori": "BXor", "arith.shli": "BShl", "arith.shrsi": "BShrS",
}
CMPOPS = {0: "CEq", 1: "CNe", 2: "CLt", 3: "CLe", 4: "CGt", 5: "CGe"}
IDOPS = {"arith.index_cast", "arith.extsi"}


class Unsupported(Exception):
    pass


class Names:
    """Id tables; ids are allocated on first sight and never change."""

    def __init__(self):
        self.accs: dict[str, int] = {}
        self.fields: dict[str, int] = {}
        self.tags: dict[str, int] = {}
        self.vals: dict = {}          # SSAValue (identity) -> id
        self.val_names: dict[int, str] = {}

    def acc(self, s: str) -> int:
        return self.accs.setdefault(s, len(self.accs))

    def field(self, s: str) -> int:
        return self.fields.setdefault(s, len(self.fields))

    def tag(self, s: str) -> int:
        return self.tags.setdefault(s, len(self.tags))

    def val(self, v) -> int:
        if v not in self.vals:
            self.vals[v] = len(self.vals)
            self.val_names[self.vals[v]] = v.name_hint or f"v{self.vals[v]}"
        return self.vals[v]

    def preseed(self, mod) -> "Names":
        """Allocate accelerator and field ids in SORTED name order (so that Python's `sorted(names)`
        is the numeric order of the ids), before anything else is converted."""
        from snaxc.dialects import accfg
        accs, fields = set(), set()
        for op in mod.walk():
            if isinstance(op, accfg.SetupOp | accfg.LaunchOp):
                accs.add(op.accelerator.data)
                fields.update(p.data for p in op.param_names.data)
        for a in sorted(accs):
            self.acc(a)
        for f in sorted(fields):
            self.field(f)
        return self

    def tables(self) -> dict:
        return {"accs": dict(self.accs), "fields": dict(self.fields), "tags": dict(self.tags)}


def _ty(t, names: Names):
    from snaxc.dialects import accfg
    if isinstance(t, accfg.StateType):
        return ["state", names.acc(t.accelerator.data)]
    return "int"


def _effects(op) -> bool:
    from snaxc.dialects import accfg
    a = op.attributes.get("accfg.effects", None)
    if isinstance(a, accfg.EffectsAttr):
        return a.data != accfg.EffectsEnum.NONE
    return op.name in ("func.call", "llvm.call")


def convert_block(block, names: Names, skip_terminator: bool = True) -> tuple[list, list]:
    """Returns (stmts, operands of the terminator as val ids)."""
    from xdsl.dialects import scf
    from xdsl.traits import IsTerminator
    out = []
    term = []
    for op in block.ops:
        if op.has_trait(IsTerminator):
            term = [names.val(o) for o in op.operands] if isinstance(op, scf.YieldOp) else []
            continue
        out.append(convert_op(op, names))
    return out, term


def convert_op(op, names: Names) -> dict:
    from xdsl.dialects import arith, scf
    from xdsl.dialects.builtin import IntegerAttr
    from xdsl.traits import is_side_effect_free
    from snaxc.dialects import accfg
    V = names.val
    if isinstance(op, accfg.SetupOp):
        return {"op": "setup", "acc": names.acc(op.accelerator.data), "out": V(op.out_state),
                "in": V(op.in_state) if op.in_state is not None else None,
                "fields": [[names.field(p.data), V(v)] for p, v in zip(op.param_names.data, op.values)]}
    if isinstance(op, accfg.LaunchOp):
        return {"op": "launch", "acc": names.acc(op.accelerator.data), "tok": V(op.token), "state": V(op.state),
                "fields": [[names.field(p.data), V(v)] for p, v in zip(op.param_names.data, op.values)]}
    if isinstance(op, accfg.AwaitOp):
        t = op.token.type
        if not isinstance(t, accfg.TokenType):
            raise Unsupported("await on a non-token")
        return {"op": "await", "acc": names.acc(t.accelerator.data), "tok": V(op.token)}
    if isinstance(op, accfg.ResetOp):
        t = op.in_state.type
        return {"op": "reset", "acc": names.acc(t.accelerator.data), "state": V(op.in_state)}
    if isinstance(op, scf.ForOp):
        if "accfg.effects" in op.attributes:
            raise Unsupported("accfg.effects on scf.for")
        blk = op.body.block
        iv = V(blk.args[0])
        iters = [[V(a), V(i), _ty(a.type, names)] for a, i in zip(blk.args[1:], op.iter_args)]
        if len(blk.args) - 1 != len(op.iter_args) or len(op.results) != len(op.iter_args):
            raise Unsupported("scf.for arity mismatch")
        body, ys = convert_block(blk, names)
        return {"op": "for", "iv": iv, "lb": V(op.lb), "ub": V(op.ub), "step": V(op.step), "iters": iters,
                "results": [V(r) for r in op.results], "body": body, "yields": ys}
    if isinstance(op, scf.IfOp):
        if "accfg.effects" in op.attributes:
            raise Unsupported("accfg.effects on scf.if")
        th, thy = convert_block(op.true_region.block, names)
        if op.false_region.blocks:
            el, ely = convert_block(op.false_region.block, names)
        else:
            el, ely = [], []
        return {"op": "if", "cond": V(op.cond), "results": [[V(r), _ty(r.type, names)] for r in op.results],
                "then": th, "then_y": thy, "else": el, "else_y": ely}
    if (op.name == "test.op" and len(op.regions) == 1 and len(op.regions[0].blocks) == 1 and not op.results
            and len(op.operands) == 1 and "accfg.effects" not in op.attributes):
        # an unknown region op (the `elif op.regions` branch of state tracing): read as "executes its region iff
        # its i1 operand is true" - used by notes/probe_c07_region_op.mlir only; generators never emit it
        th, _ = convert_block(op.regions[0].blocks[0], names)
        return {"op": "if", "cond": V(op.operands[0]), "results": [], "then": th, "then_y": [], "else": [], "else_y": []}
    if op.regions:
        raise Unsupported(f"op with regions: {op.name}")
    eff = _effects(op)
    if not eff and len(op.results) == 1 and "accfg.effects" not in op.attributes:
        d = V(op.results[0])
        if isinstance(op, arith.ConstantOp) and isinstance(op.value, IntegerAttr):
            return {"op": "pure", "dst": d, "exp": ["const", int(op.value.value.data)]}
        if op.name in BINOPS:
            return {"op": "pure", "dst": d, "exp": ["bin", BINOPS[op.name], V(op.operands[0]), V(op.operands[1])]}
        if op.name in IDOPS:
            return {"op": "pure", "dst": d, "exp": ["id", V(op.operands[0])]}
        if isinstance(op, arith.CmpiOp) and int(op.predicate.value.data) in CMPOPS:
            return {"op": "pure", "dst": d,
                    "exp": ["cmp", CMPOPS[int(op.predicate.value.data)], V(op.operands[0]), V(op.operands[1])]}
        if op.name == "arith.select":
            return {"op": "pure", "dst": d, "exp": ["select", V(op.operands[0]), V(op.operands[1]), V(op.operands[2])]}
    callee = None
    if op.name in ("func.call", "llvm.call"):
        c = getattr(op, "callee", None)
        callee = op.name + "@" + (c.string_value() if c is not None and hasattr(c, "string_value") else str(c))
    tag = names.tag(callee or op.name)
    return {"op": "call", "tag": tag, "eff": bool(eff), "pure": bool(is_side_effect_free(op)),
            "dsts": [V(r) for r in op.results], "args": [V(o) for o in op.operands]}


def convert_func(func_op, names: Names) -> dict:
    blk = func_op.body.block
    params = [names.val(a) for a in blk.args]
    body, _ = convert_block(blk, names)
    return {"params": params, "body": body}


def convert_module(mod, names: Names | None = None) -> dict:
    from xdsl.dialects import func
    names = names or Names()
    res = {}
    for op in mod.body.block.ops:
        if isinstance(op, func.FuncOp) and op.body.blocks:
            res[op.sym_name.data] = convert_func(op, names)
    return res


def to_json(prog: dict) -> dict:
    return prog


# ------------------------------------------------------------------ Coq literals
def _n(x: int) -> str:
    assert 0 <= x < 100000
    return f"{x}%nat"


def _z(x: int) -> str:
    return f"({x})%Z" if x < 0 else f"{x}%Z"


def _l(items) -> str:
    return "[" + "; ".join(items) + "]"


def _nl(xs) -> str:
    return _l(_n(x) for x in xs)


def _fv(fs) -> str:
    return _l(f"({_n(f)}, {_n(v)})" for f, v in fs)


def _tyc(t) -> str:
    return "TInt" if t == "int" else f"(TState {_n(t[1])})"


def exp_to_coq(e) -> str:
    k = e[0]
    if k == "const":
        return f"(PConst {_z(e[1])})"
    if k == "id":
        return f"(PId {_n(e[1])})"
    if k == "bin":
        return f"(PBin {e[1]} {_n(e[2])} {_n(e[3])})"
    if k == "cmp":
        return f"(PCmp {e[1]} {_n(e[2])} {_n(e[3])})"
    if k == "select":
        return f"(PSelect {_n(e[1])} {_n(e[2])} {_n(e[3])})"
    raise ValueError(e)


def stmt_to_coq(s: dict) -> str:
    o = s["op"]
    b = lambda x: "true" if x else "false"
    if o == "pure":
        return f"SPure {_n(s['dst'])} {exp_to_coq(s['exp'])}"
    if o == "call":
        return f"SCall {_n(s['tag'])} {b(s['eff'])} {b(s['pure'])} {_nl(s['dsts'])} {_nl(s['args'])}"
    if o == "setup":
        i = "None" if s["in"] is None else f"(Some {_n(s['in'])})"
        return f"SSetup {_n(s['acc'])} {_n(s['out'])} {i} {_fv(s['fields'])}"
    if o == "launch":
        return f"SLaunch {_n(s['acc'])} {_n(s['tok'])} {_n(s['state'])} {_fv(s['fields'])}"
    if o == "await":
        return f"SAwait {_n(s['acc'])} {_n(s['tok'])}"
    if o == "reset":
        return f"SReset {_n(s['acc'])} {_n(s['state'])}"
    if o == "for":
        its = _l(f"({_n(a)}, {_n(i)}, {_tyc(t)})" for a, i, t in s["iters"])
        return (f"SFor {_n(s['iv'])} {_n(s['lb'])} {_n(s['ub'])} {_n(s['step'])} {its} {_nl(s['results'])} "
                f"{block_to_coq(s['body'])} {_nl(s['yields'])}")
    if o == "if":
        rs = _l(f"({_n(v)}, {_tyc(t)})" for v, t in s["results"])
        return (f"SIf {_n(s['cond'])} {rs} {block_to_coq(s['then'])} {_nl(s['then_y'])} "
                f"{block_to_coq(s['else'])} {_nl(s['else_y'])}")
    raise ValueError(o)


def block_to_coq(b: list) -> str:
    return _l(stmt_to_coq(s) for s in b)


def to_coq(prog: dict) -> str:
    return f"(mkProg {_nl(prog['params'])} {block_to_coq(prog['body'])})"


def zlist(xs) -> str:
    return _l(_z(int(x)) for x in xs)


# ------------------------------------------------------------------ driving the real passes
_XCTX = None


def xctx():
    """AccContext with every dialect/accelerator registered (built once)."""
    global _XCTX
    if _XCTX is None:
        import glob
        import os
        from snaxc.tools.snax_opt_main import SNAXOptMain
        repo = os.environ.get("SNAX_REPO", "/repo")
        some = sorted(glob.glob(os.path.join(repo, "tests/filecheck/transforms/*.mlir")))[0]
        _XCTX = SNAXOptMain(args=[some]).ctx
    return _XCTX


def parse(text: str):
    from xdsl.parser import Parser
    return Parser(xctx(), text).parse_module()


def print_module(mod) -> str:
    from xdsl.printer import Printer
    s = io.StringIO()
    Printer(s).print_op(mod)
    return s.getvalue()


def trace_states(mod):
    from snaxc.transforms.convert_linalg_to_accfg import TraceStatesPass
    TraceStatesPass().apply(xctx(), mod)
    mod.verify()
    return mod


def dedup(mod, hoist: bool = True):
    from snaxc.transforms.accfg_dedup import AccfgDeduplicate
    AccfgDeduplicate(hoist=hoist).apply(xctx(), mod)
    mod.verify()
    return mod


# ------------------------------------------------------------------ program generator (lowering form)
class GenCfg:
    def __init__(self, **kw):
        self.n_accs = 2
        self.max_fields = 3
        self.max_depth = 3
        self.max_items = 4
        self.n_vals = 4            # i32 function arguments in the value pool
        self.p_for = 0.22
        self.p_if = 0.18
        self.p_call = 0.14
        self.p_pure = 0.12
        self.p_noeff = 0.4         # share of calls carrying accfg.effects<none>
        self.p_else = 0.7
        self.threaded = False      # emit already-threaded (`from`) state where trivially possible
        self.launch_fields = False
        self.p_llvm = 0.35         # share of calls that are llvm.call (opaque, never annotated)
        self.p_repeat = 0.25       # a triple repeats the field values of an earlier triple (same accelerator)
        self.p_prethreaded = 0.0   # share of loops that already carry the state as iter_arg/result
        self.p_branch_first = 0.08 # `if c { triple V }` directly followed by the same triple V (an accelerator may
                                   # be configured for the first time inside the branch)
        self.p_if_result = 0.0     # share of scf.if ops that also yield an i32 (different value per branch); the
                                   # result joins the value pool, so a following setup may use it (added by the audit)
        self.p_efffull = 0.0       # share of opaque-call items that are an op annotated accfg.effects<full>
                                   # (a non-call "test.op" or a func.call): clobbers like an unannotated call
        for k, v in kw.items():
            setattr(self, k, v)


class _Gen:
    def __init__(self, rng, cfg: GenCfg):
        self.rng, self.cfg = rng, cfg
        self.k = 0
        self.params: list[tuple[str, str, str]] = []   # (name, mlir type, kind)
        self.accs = [f"acc{i}" for i in range(rng.randint(1, cfg.n_accs))]
        nf = rng.randint(1, cfg.max_fields)
        self.fields = {a: [chr(ord("A") + j) for j in range(nf if i == 0 else rng.randint(1, cfg.max_fields))]
                       for i, a in enumerate(self.accs)}
        self.nloops = 0
        self.nifs = 0
        self.items = 0
        self.history = []
        self.uses_llvm = False

    def fresh(self, p="v"):
        self.k += 1
        return f"%{p}{self.k}"

    def param(self, ty, kind):
        n = self.fresh("p")
        self.params.append((n, ty, kind))
        return n

    def triple(self, pool, ind, last_state, force=None):
        a = self.rng.choice(self.accs)
        vals = [(f, self.rng.choice(pool)) for f in self.fields[a]]
        if force is not None:
            a, vals = force
        # repeat the configuration of an earlier triple (wherever it was: inside a branch, a loop body ...)
        # when all its values are visible here
        olds = [v for (b, v) in self.history if b == a and all(x in pool for _, x in v)]
        if force is None and olds and self.rng.random() < self.cfg.p_repeat:
            vals = list(self.rng.choice(olds))
        self.history.append((a, list(vals)))
        s, t = self.fresh("s"), self.fresh("t")
        frm = ""
        if self.cfg.threaded and last_state.get(a) and self.rng.random() < 0.5:
            frm = f"from {last_state[a]} "
        lines = [f'{ind}{s} = accfg.setup "{a}" {frm}to (' + ", ".join(f'"{f}" = {v} : i32' for f, v in vals)
                 + f') : !accfg.state<"{a}">']
        last_state[a] = s
        if self.cfg.launch_fields and self.rng.random() < 0.3:
            lv = self.rng.choice(pool)
            lines.append(f'{ind}{t} = "accfg.launch"({lv}, {s}) <{{param_names = ["launch"], accelerator = "{a}"}}> : '
                         f'(i32, !accfg.state<"{a}">) -> !accfg.token<"{a}">')
        else:
            lines.append(f'{ind}{t} = "accfg.launch"({s}) <{{param_names = [], accelerator = "{a}"}}> : '
                         f'(!accfg.state<"{a}">) -> !accfg.token<"{a}">')
        lines.append(f'{ind}"accfg.await"({t}) : (!accfg.token<"{a}">) -> ()')
        return lines

    def block(self, pool, depth, ind, idx_vars):
        rng, cfg = self.rng, self.cfg
        lines = []
        pool = list(pool)
        last_state: dict[str, str] = {}
        n = rng.randint(1, cfg.max_items)
        for _ in range(n):
            self.items += 1
            r = rng.random()
            if depth < cfg.max_depth and rng.random() < cfg.p_branch_first and self.items < 40:
                a = rng.choice(self.accs)
                vals = [(f, rng.choice(pool)) for f in self.fields[a]]
                c = self.param("i1", "cond")
                lines.append(f"{ind}scf.if {c} {{")
                lines += self.triple(pool, ind + "  ", {}, force=(a, vals))
                lines.append(f"{ind}  scf.yield")
                lines.append(f"{ind}}}")
                self.nifs += 1
                last_state = {}
                lines += self.triple(pool, ind, last_state, force=(a, vals))
                continue
            if depth < cfg.max_depth and r < cfg.p_for and self.items < 40:
                lb, ub, st = self.param("index", "lb"), self.param("index", "ub"), self.param("index", "step")
                i = self.fresh("i")
                w = self.fresh("w")
                inner = [f"{ind}  {w} = arith.index_cast {i} : index to i32"]
                ipool = pool + [w]
                if rng.random() < 0.5:
                    w2 = self.fresh("w")
                    o = rng.choice(pool)
                    opn = rng.choice(["arith.addi", "arith.muli", "arith.subi"])
                    inner.append(f"{ind}  {w2} = {opn} {w}, {o} : i32")
                    ipool.append(w2)
                pre = [a for a in self.accs if last_state.get(a)]
                if pre and rng.random() < cfg.p_prethreaded:
                    # a loop that ALREADY carries the state of one accelerator (hand-threaded input):
                    # iter_arg / result exist, the body is one threaded triple, later code is un-threaded
                    a = rng.choice(pre)
                    barg, res, s2, t2 = self.fresh("h"), self.fresh("r"), self.fresh("s"), self.fresh("t")
                    vals = [(f, rng.choice(ipool)) for f in self.fields[a]]
                    self.history.append((a, list(vals)))
                    lines.append(f'{ind}{res} = scf.for {i} = {lb} to {ub} step {st} iter_args({barg} = {last_state[a]}) '
                                 f'-> (!accfg.state<"{a}">) {{')
                    lines += inner
                    lines.append(f'{ind}  {s2} = accfg.setup "{a}" from {barg} to ('
                                 + ", ".join(f'"{f}" = {v} : i32' for f, v in vals) + f') : !accfg.state<"{a}">')
                    lines.append(f'{ind}  {t2} = "accfg.launch"({s2}) <{{param_names = [], accelerator = "{a}"}}> : '
                                 f'(!accfg.state<"{a}">) -> !accfg.token<"{a}">')
                    lines.append(f'{ind}  "accfg.await"({t2}) : (!accfg.token<"{a}">) -> ()')
                    lines.append(f'{ind}  scf.yield {s2} : !accfg.state<"{a}">')
                    lines.append(f"{ind}}}")
                    last_state = {}
                    self.nloops += 1
                    continue
                inner += self.block(ipool, depth + 1, ind + "  ", idx_vars + [i])
                lines.append(f"{ind}scf.for {i} = {lb} to {ub} step {st} {{")
                lines += inner
                lines.append(f"{ind}  scf.yield")
                lines.append(f"{ind}}}")
                last_state = {}
                self.nloops += 1
            elif depth < cfg.max_depth and r < cfg.p_for + cfg.p_if and self.items < 40:
                if idx_vars and rng.random() < 0.4:
                    c = self.fresh("c")
                    k = self.fresh("k")
                    lines.append(f"{ind}{k} = arith.constant {rng.choice([0, 1, 2, 3])} : index")
                    pred = rng.choice(["eq", "ne", "slt", "sgt"])
                    lines.append(f"{ind}{c} = arith.cmpi {pred}, {rng.choice(idx_vars)}, {k} : index")
                else:
                    c = self.param("i1", "cond")
                if cfg.p_if_result and rng.random() < cfg.p_if_result:
                    # the scf.if also computes an integer: both branches yield an i32, the result is visible
                    # to everything that follows (in particular to the setup right behind the scf.if)
                    q = self.fresh("q")
                    y1, y2 = rng.choice(pool), rng.choice(pool)
                    lines.append(f"{ind}{q} = scf.if {c} -> (i32) {{")
                    lines += self.block(pool, depth + 1, ind + "  ", idx_vars)
                    lines.append(f"{ind}  scf.yield {y1} : i32")
                    lines.append(f"{ind}}} else {{")
                    lines += self.block(pool, depth + 1, ind + "  ", idx_vars)
                    lines.append(f"{ind}  scf.yield {y2} : i32")
                    lines.append(f"{ind}}}")
                    last_state = {}
                    self.nifs += 1
                    pool.append(q)
                    # most of the time a triple that uses the result follows directly
                    if rng.random() < 0.7:
                        a = rng.choice(self.accs)
                        vals = [(f, rng.choice(pool)) for f in self.fields[a]]
                        j = rng.randrange(len(vals))
                        vals[j] = (vals[j][0], q)
                        lines += self.triple(pool, ind, last_state, force=(a, vals))
                    continue
                lines.append(f"{ind}scf.if {c} {{")
                lines += self.block(pool, depth + 1, ind + "  ", idx_vars)
                lines.append(f"{ind}  scf.yield")
                if rng.random() < cfg.p_else:
                    lines.append(f"{ind}}} else {{")
                    lines += self.block(pool, depth + 1, ind + "  ", idx_vars)
                    lines.append(f"{ind}  scf.yield")
                lines.append(f"{ind}}}")
                last_state = {}
                self.nifs += 1
            elif r < cfg.p_for + cfg.p_if + cfg.p_call:
                callee = rng.choice(["@foo", "@bar"])
                if cfg.p_efffull and rng.random() < cfg.p_efffull:
                    last_state = {}
                    if rng.random() < 0.6:
                        lines.append(f'{ind}"test.op"() {{"accfg.effects" = #accfg.effects<full>}} : () -> ()')
                    else:
                        lines.append(f'{ind}func.call {callee}() {{"accfg.effects" = #accfg.effects<full>}} : () -> ()')
                    continue
                attr = ' {"accfg.effects" = #accfg.effects<none>}' if rng.random() < cfg.p_noeff else ""
                if attr == "" and rng.random() < cfg.p_llvm:
                    self.uses_llvm = True
                    last_state = {}
                    lines.append(f"{ind}llvm.call @lfoo() : () -> ()")
                else:
                    if attr == "":
                        last_state = {}
                    lines.append(f"{ind}func.call {callee}(){attr} : () -> ()")
            elif r < cfg.p_for + cfg.p_if + cfg.p_call + cfg.p_pure:
                v = self.fresh("a")
                x, y = rng.choice(pool), rng.choice(pool)
                opn = rng.choice(["arith.addi", "arith.muli", "arith.subi"])
                lines.append(f"{ind}{v} = {opn} {x}, {y} : i32")
                pool.append(v)
            else:
                lines += self.triple(pool, ind, last_state)
        return lines


def gen_module(rng, cfg: GenCfg | None = None) -> tuple[str, dict]:
    """Random function in lowering form (un-threaded unless cfg.threaded). Returns (mlir text, info);
    info["params"] = [(name, type, kind)], kind in val|lb|ub|step|cond, in parameter order."""
    cfg = cfg or GenCfg()
    g = _Gen(rng, cfg)
    pool = [g.param("i32", "val") for _ in range(rng.randint(2, cfg.n_vals))]
    if rng.random() < 0.5:
        pool = pool  # constants are added below as ops
    body = []
    if rng.random() < 0.5:
        c = g.fresh("k")
        body.append(f"  {c} = arith.constant {rng.choice([0, 1, 7, 42])} : i32")
        pool = pool + [c]
    body += g.block(pool, 0, "  ", [])
    sig = ", ".join(f"{n} : {t}" for n, t, _ in g.params)
    text = "\n".join([f"func.func @f({sig}) {{"] + body + ["  func.return", "}",
                                                           "func.func private @foo() -> ()",
                                                           "func.func private @bar() -> ()"]
                     + (["llvm.func @lfoo()"] if g.uses_llvm else [])) + "\n"
    return text, {"params": g.params, "loops": g.nloops, "ifs": g.nifs, "accs": g.accs}


def gen_inputs(rng, info: dict, style: str | None = None) -> list[int]:
    """Runtime inputs for the parameters of a generated function: distinct values for the value pool,
    loop bounds giving trip counts 0..4 with lb != 0 and step > 1 variety, both branch outcomes."""
    out = []
    trip = None
    st = lb = 0
    for i, (_, _, kind) in enumerate(info["params"]):
        if kind == "val":
            out.append(10 + 3 * i + rng.randint(0, 1) * 100)
        elif kind == "lb":
            lb = rng.choice([0, 0, 1, 2, 5, -3])
            st = rng.choice([1, 1, 2, 3])
            trip = rng.choice([0, 0, 1, 2, 2, 3, 4]) if style is None else {"zero": 0, "one": 1, "two": 2, "many": 3}[style]
            out.append(lb)
        elif kind == "ub":
            ub = lb + trip * st - (rng.randint(0, st - 1) if trip > 0 else rng.choice([0, 1, 4]))
            out.append(ub)
        elif kind == "step":
            out.append(st)
        elif kind == "cond":
            out.append(rng.choice([0, 1]))
        else:
            raise ValueError(kind)
    return out
