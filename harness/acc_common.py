"""Shared harness code of C07 / C01: drive the real accfg-trace-states / accfg-dedup passes on a
module, convert every stage to the abstract IR, read the real infer_state_of tables, record the
individual dedup rewrites, and render Coq cases."""
from __future__ import annotations

import accir
from accir import _fv, _l, _n, to_coq, zlist


def state_values(mod):
    from snaxc.dialects import accfg
    for op in mod.walk():
        for r in op.results:
            if isinstance(r.type, accfg.StateType):
                yield r
        for reg in op.regions:
            for b in reg.blocks:
                for a in b.args:
                    if isinstance(a.type, accfg.StateType):
                        yield a


def find_func(mod, fn: str):
    from xdsl.dialects import func
    for op in mod.body.block.ops:
        if isinstance(op, func.FuncOp) and op.sym_name.data == fn:
            return op
    raise KeyError(fn)


def real_table(mod, names: accir.Names, fn: str = "f"):
    """[(state value id, [(field id, value id)...] in dict order)] from the real infer_state_of,
    for every state-typed value of function `fn`."""
    from snaxc.inference.trace_acc_state import infer_state_of
    out = []
    for v in state_values(find_func(mod, fn)):
        d = infer_state_of(v)
        out.append((names.val(v), [(names.field(k), names.val(x)) for k, x in d.items()]))
    return out


def tbl_coq(t) -> str:
    return _l(f"({_n(s)}, {_fv(d)})" for s, d in t)


DEDUP_PATTERNS = ["SimplifyRedundantSetupCalls", "PullSetupOpsOutOfLoops", "MergeSetupOps", "ElideEmptySetupOps",
                  "HoistSetupCallsIntoConditionals"]


class PassTimeout(Exception):
    pass


class _Watchdog:
    """Bound the run time of the real passes on one small module (a rewrite loop that never reaches a
    fixpoint is reported as a crash of the pass)."""

    def __init__(self, seconds=20):
        self.seconds = seconds

    def __enter__(self):
        import signal

        def handler(signum, frame):
            raise PassTimeout(f"real pass did not finish within {self.seconds}s")
        try:
            self.old = signal.signal(signal.SIGALRM, handler)
            signal.setitimer(signal.ITIMER_REAL, self.seconds)
            self.armed = True
        except ValueError:      # not in the main thread
            self.armed = False
        return self

    def __exit__(self, *a):
        import signal
        if self.armed:
            signal.setitimer(signal.ITIMER_REAL, 0)
            signal.signal(signal.SIGALRM, self.old)
        return False


class Staged:
    """One generated module through the real pipeline."""

    def __init__(self, text: str, fn: str = "f", want_steps: bool = False, hoist: bool = True, trace: bool = True):
        self.text = text
        self.fn = fn
        self.error = None
        self.names = accir.Names()
        self.before = self.traced = self.after = None
        self.table = None
        self.steps = []
        try:
            with _Watchdog(20):
                mod = accir.parse(text)
                self.names.preseed(mod)
                self.before = accir.convert_module(mod, self.names)[fn]
                if trace:
                    accir.trace_states(mod)
                self.traced = accir.convert_module(mod, self.names)[fn]
                self.table = real_table(mod, self.names, fn)
                self.traced_text = accir.print_module(mod)
                if want_steps:
                    self.steps = record_dedup(mod, self.names, fn, hoist)
                else:
                    accir.dedup(mod, hoist)
                self.after = accir.convert_module(mod, self.names)[fn]
                self.after_text = accir.print_module(mod)
        except accir.Unsupported as e:
            self.error = ("unsupported", repr(e))
        except Exception as e:  # a crash of the real pass on lowering-form input
            self.error = ("crash", repr(e)[:300])


def _func_name(op):
    from xdsl.dialects import func
    while op is not None and not isinstance(op, func.FuncOp):
        op = op.parent_op()
    return None if op is None else op.sym_name.data


def record_dedup(mod, names, fn, hoist=True):
    """Run accfg-dedup with every pattern's match_and_rewrite wrapped; returns
    [(pattern name, matched setup out-state id, prog before, table before, prog after)] for each rewrite
    that changed the IR."""
    from xdsl.pattern_rewriter import GreedyRewritePatternApplier, PatternRewriteWalker
    from snaxc.transforms import accfg_dedup as D
    steps = []

    def wrap(pat):
        orig = pat.match_and_rewrite

        def wrapped(op, rewriter):
            from snaxc.dialects import accfg
            if not isinstance(op, accfg.SetupOp) or _func_name(op) != fn:
                return orig(op, rewriter)
            before = accir.convert_module(mod, names)[fn]
            tb = real_table(mod, names, fn)
            target = names.val(op.out_state)
            was = rewriter.has_done_action
            rewriter.has_done_action = False
            orig(op, rewriter)
            if rewriter.has_done_action:
                after = accir.convert_module(mod, names)[fn]
                steps.append((type(pat).__name__, target, before, tb, after))
            rewriter.has_done_action = rewriter.has_done_action or was

        pat.match_and_rewrite = wrapped
        return pat

    pats = [wrap(D.SimplifyRedundantSetupCalls()), wrap(D.PullSetupOpsOutOfLoops()), wrap(D.MergeSetupOps()),
            wrap(D.ElideEmptySetupOps())]
    if hoist:
        pats.append(wrap(D.HoistSetupCallsIntoConditionals()))
    PatternRewriteWalker(GreedyRewritePatternApplier(pats), walk_reverse=True).rewrite_module(mod)
    mod.verify()
    return steps


HEADER = "From Snax Require Import Base.Prelude Model.AccIR Model.AccSem Model.AccInfer.\n"


def shard(items, k):
    k = max(1, min(k, len(items)))
    return [items[i::k] for i in range(k)]


def all_ids(prog) -> list[int]:
    """every value id of a prog dict in program order (defs and uses), without duplicates"""
    out, seen = [], set()

    def add(x):
        if x is not None and x not in seen:
            seen.add(x)
            out.append(x)

    def walk(b):
        for s in b:
            o = s["op"]
            if o == "pure":
                add(s["dst"])
                for x in s["exp"][1:]:
                    if isinstance(x, int) and s["exp"][0] != "const":
                        add(x)
            elif o == "call":
                for x in s["dsts"] + s["args"]:
                    add(x)
            elif o == "setup":
                add(s["out"]); add(s["in"])
                for _, v in s["fields"]:
                    add(v)
            elif o == "launch":
                add(s["tok"]); add(s["state"])
                for _, v in s["fields"]:
                    add(v)
            elif o == "await":
                add(s["tok"])
            elif o == "reset":
                add(s["state"])
            elif o == "for":
                for x in (s["iv"], s["lb"], s["ub"], s["step"]):
                    add(x)
                for a, i, _ in s["iters"]:
                    add(a); add(i)
                for x in s["results"]:
                    add(x)
                walk(s["body"])
                for x in s["yields"]:
                    add(x)
            elif o == "if":
                add(s["cond"])
                for r, _ in s["results"]:
                    add(r)
                walk(s["then"])
                for x in s["then_y"]:
                    add(x)
                walk(s["else"])
                for x in s["else_y"]:
                    add(x)
    for x in prog["params"]:
        add(x)
    walk(prog["body"])
    return out


def fresh_ids(before, after) -> list[int]:
    old = set(all_ids(before))
    return [x for x in all_ids(after) if x not in old]


RULE_OF = {"SimplifyRedundantSetupCalls": "RSimplify", "PullSetupOpsOutOfLoops": "RPull", "MergeSetupOps": "RMerge",
           "ElideEmptySetupOps": "RElide", "HoistSetupCallsIntoConditionals": "RHoist"}


def step_case(step) -> str:
    pat, target, before, tb, after = step
    fr = fresh_ids(before, after)
    return (f"({RULE_OF[pat]}, {tbl_coq(tb)}, {accir._nl(fr)}, {_n(target)}, {to_coq(before)}, {to_coq(after)})")


HEADER_D = "From Snax Require Import Base.Prelude Model.AccIR Model.AccSem Model.AccInfer Model.AccDedup Model.AccWeave Model.AccRules.\n"
