func.func @step(%a : index) {
  %c0 = arith.constant 0 : index
  %c10 = arith.constant 10 : index
  %c4 = arith.constant 4 : index
  scf.for %i = %c0 to %c10 step %c4 {
    "test.op"(%i) : (index) -> ()
    scf.yield
  }
  func.return
}
func.func @merge() {
  %c0 = arith.constant 0 : index
  %c2 = arith.constant 2 : index
  %c3 = arith.constant 3 : index
  %c1 = arith.constant 1 : index
  scf.for %i = %c0 to %c2 step %c1 {
    "test.op"(%i) {tag = "pre"} : (index) -> ()
    scf.for %j = %c0 to %c3 step %c1 {
      "test.op"(%i, %j) {tag = "in"} : (index, index) -> ()
      scf.yield
    }
    "test.op"(%i) {tag = "post"} : (index) -> ()
    scf.yield
  }
  func.return
}
