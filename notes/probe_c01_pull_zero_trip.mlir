func.func @pull_zt(%k : i32, %k2 : i32, %a : i32, %b : i32, %lb : index, %ub : index, %st : index) {
  %s1 = accfg.setup "acc" to ("K" = %k : i32) : !accfg.state<"acc">
  scf.for %i = %lb to %ub step %st {
    %s2 = accfg.setup "acc" to ("K" = %k2 : i32) : !accfg.state<"acc">
    %t2 = "accfg.launch"(%s2) <{param_names = [], accelerator = "acc"}> : (!accfg.state<"acc">) -> !accfg.token<"acc">
    "accfg.await"(%t2) : (!accfg.token<"acc">) -> ()
    scf.yield
  }
  %s3 = accfg.setup "acc" to ("A" = %a : i32, "B" = %b : i32) : !accfg.state<"acc">
  %t3 = "accfg.launch"(%s3) <{param_names = [], accelerator = "acc"}> : (!accfg.state<"acc">) -> !accfg.token<"acc">
  "accfg.await"(%t3) : (!accfg.token<"acc">) -> ()
  func.return
}
