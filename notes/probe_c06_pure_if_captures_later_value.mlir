// audit-d, C06 — REPAIRED by /repo fix 09d2c36 (ops with regions are immovable for get_scoped_setup_inputs).
// Before the fix: BlockLevelSetupAwaitOverlapPattern moved a side-effect-free scf.if (part of the setup's input
// closure: get_scoped_setup_inputs follows only the *operands* of an op, not the values its regions capture)
// above the definition of %c, which the region captures.  Result: %r = scf.if ... { scf.yield %c } sits
// before `%c = arith.addi`; ModuleOp.verify() of xDSL 0.70 accepts it.
// Run: accfg-config-overlap on this file (in-process: AccfgConfigOverlapPass().apply(ctx, mod)).
func.func @f(%a : i32, %b : i32, %cond : i1) {
  %s = accfg.setup "acc" to ("A" = %a : i32) : !accfg.state<"acc">
  %t = "accfg.launch"(%s) <{param_names = [], accelerator = "acc"}> : (!accfg.state<"acc">) -> !accfg.token<"acc">
  "accfg.await"(%t) : (!accfg.token<"acc">) -> ()
  %c = arith.addi %a, %b : i32
  %r = scf.if %cond -> (i32) {
    scf.yield %c : i32
  } else {
    scf.yield %b : i32
  }
  %s2 = accfg.setup "acc" from %s to ("A" = %r : i32) : !accfg.state<"acc">
  %t2 = "accfg.launch"(%s2) <{param_names = [], accelerator = "acc"}> : (!accfg.state<"acc">) -> !accfg.token<"acc">
  "accfg.await"(%t2) : (!accfg.token<"acc">) -> ()
  func.return
}
