// audit C07 (F42): IR that accfg-trace-states has already threaded (scf.if with a state result feeding a loop that
// carries the state).  Re-running accfg-trace-states adds a SECOND state result to the scf.if, takes it as the current
// state and appends it to the loop operands without creating a block argument: verifier error.
func.func @rethread(%x : i32, %y : i32, %c : i1, %lb : index, %ub : index, %st : index) {
  %s0 = accfg.setup "acc" to ("A" = %x : i32) : !accfg.state<"acc">
  %t0 = "accfg.launch"(%s0) <{param_names = [], accelerator = "acc"}> : (!accfg.state<"acc">) -> !accfg.token<"acc">
  "accfg.await"(%t0) : (!accfg.token<"acc">) -> ()
  %r = scf.if %c -> (!accfg.state<"acc">) {
    %s1 = accfg.setup "acc" from %s0 to ("A" = %y : i32) : !accfg.state<"acc">
    %t1 = "accfg.launch"(%s1) <{param_names = [], accelerator = "acc"}> : (!accfg.state<"acc">) -> !accfg.token<"acc">
    "accfg.await"(%t1) : (!accfg.token<"acc">) -> ()
    scf.yield %s1 : !accfg.state<"acc">
  } else {
    scf.yield %s0 : !accfg.state<"acc">
  }
  %l = scf.for %i = %lb to %ub step %st iter_args(%h = %r) -> (!accfg.state<"acc">) {
    %s2 = accfg.setup "acc" from %h to ("A" = %x : i32) : !accfg.state<"acc">
    %t2 = "accfg.launch"(%s2) <{param_names = [], accelerator = "acc"}> : (!accfg.state<"acc">) -> !accfg.token<"acc">
    "accfg.await"(%t2) : (!accfg.token<"acc">) -> ()
    scf.yield %s2 : !accfg.state<"acc">
  }
  func.return
}
