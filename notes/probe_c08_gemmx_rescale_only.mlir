func.func public @rescale(%arg0 : memref<16x16xi32>, %arg1 : memref<16x16xi8>) {
  "dart.operation"(%arg0, %arg1) <{patterns = [affine_map<(d0, d1) -> (d0, d1)>, affine_map<(d0, d1) -> (d0, d1)>], accelerator = "snax_gemmx", operandSegmentSizes = array<i32: 1, 1>}> ({
  ^bb0(%0 : !dart.stream<i32>, %1 : !dart.stream<i8>):
    %3 = "dart.generic"(%0) <{library_call = "snax_gemmx"}> ({
    ^bb1(%arg3 : i32, %arg4 : i8):
      %4 = "kernel.rescale"(%arg3) {input_zp = 3 : i32, output_zp = -4 : i32, multiplier = array<i32: 1234567890>, shift = array<i32: 39>, max_int = 127 : i32, min_int = -128 : i32, double_round = true} : (i32) -> i8
      dart.yield %4 : i8
    }) : (!dart.stream<i32>) -> !dart.stream<i8>
    dart.yield %3 : !dart.stream<i8>
  }) : (memref<16x16xi32>, memref<16x16xi8>) -> ()
  func.return
}
