func.func @ifcall(%x : i32, %y : i32, %c : i1) {
  %s0 = accfg.setup "acc" to ("A" = %x : i32, "B" = %y : i32) : !accfg.state<"acc">
  %t0 = "accfg.launch"(%s0) <{param_names = [], accelerator = "acc"}> : (!accfg.state<"acc">) -> !accfg.token<"acc">
  "accfg.await"(%t0) : (!accfg.token<"acc">) -> ()
  scf.if %c {
    func.call @foo() : () -> ()
    scf.yield
  }
  %s1 = accfg.setup "acc" to ("A" = %x : i32, "B" = %y : i32) : !accfg.state<"acc">
  %t1 = "accfg.launch"(%s1) <{param_names = [], accelerator = "acc"}> : (!accfg.state<"acc">) -> !accfg.token<"acc">
  "accfg.await"(%t1) : (!accfg.token<"acc">) -> ()
  func.return
}
func.func @forcall(%x : i32, %y : i32, %lb : index, %ub : index, %st : index) {
  %s0 = accfg.setup "acc" to ("A" = %x : i32, "B" = %y : i32) : !accfg.state<"acc">
  %t0 = "accfg.launch"(%s0) <{param_names = [], accelerator = "acc"}> : (!accfg.state<"acc">) -> !accfg.token<"acc">
  "accfg.await"(%t0) : (!accfg.token<"acc">) -> ()
  scf.for %i = %lb to %ub step %st {
    func.call @foo() : () -> ()
    scf.yield
  }
  %s1 = accfg.setup "acc" to ("A" = %x : i32, "B" = %y : i32) : !accfg.state<"acc">
  %t1 = "accfg.launch"(%s1) <{param_names = [], accelerator = "acc"}> : (!accfg.state<"acc">) -> !accfg.token<"acc">
  "accfg.await"(%t1) : (!accfg.token<"acc">) -> ()
  func.return
}
func.func @zerotrip(%x : i32, %y : i32, %z : i32, %lb : index, %ub : index, %st : index) {
  %s0 = accfg.setup "acc" to ("A" = %x : i32) : !accfg.state<"acc">
  scf.for %i = %lb to %ub step %st {
    %s1 = accfg.setup "acc" to ("A" = %z : i32) : !accfg.state<"acc">
    %t1 = "accfg.launch"(%s1) <{param_names = [], accelerator = "acc"}> : (!accfg.state<"acc">) -> !accfg.token<"acc">
    "accfg.await"(%t1) : (!accfg.token<"acc">) -> ()
    scf.yield
  }
  %s2 = accfg.setup "acc" to ("A" = %z : i32) : !accfg.state<"acc">
  %t2 = "accfg.launch"(%s2) <{param_names = [], accelerator = "acc"}> : (!accfg.state<"acc">) -> !accfg.token<"acc">
  "accfg.await"(%t2) : (!accfg.token<"acc">) -> ()
  func.return
}
func.func private @foo() -> ()
