func.func public @streamer_add(%arg0 : memref<16xi64, strided<[1], offset: 5>>, %arg1 : memref<16xi64, strided<[2]>>, %arg2 : memref<16xi64>) {
  "dart.operation"(%arg0, %arg1, %arg2) <{patterns = [affine_map<(d0) -> (d0)>, affine_map<(d0) -> (d0)>, affine_map<(d0) -> (d0)>], accelerator = "snax_alu", operandSegmentSizes = array<i32: 2, 1>}> ({
  ^bb0(%0 : !dart.stream<i64>, %1 : !dart.stream<i64>, %2 : !dart.stream<i64>):
    %3 = "dart.generic"(%0, %1) <{library_call = "snax_alu"}> ({
    ^bb1(%arg3 : i64, %arg4 : i64, %arg5 : i64):
      %4 = kernel.add %arg3, %arg4 : i64, i64 -> i64
      dart.yield %4 : i64
    }) : (!dart.stream<i64>, !dart.stream<i64>) -> !dart.stream<i64>
    dart.yield %3 : !dart.stream<i64>
  }) : (memref<16xi64, strided<[1], offset: 5>>, memref<16xi64, strided<[2]>>, memref<16xi64>) -> ()
  func.return
}
