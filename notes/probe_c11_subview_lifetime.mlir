builtin.module {
  func.func public @test() {
    %0 = arith.constant 4 : index
    %1 = arith.constant 64 : index
    %2 = "snax.alloc"(%1, %0, %0) <{memory_space = "Test", alignment = 1 : i32}> : (index, index, index) -> !llvm.struct<(!llvm.ptr, !llvm.ptr, i32, !llvm.array<2 x i32>, !llvm.array<2 x i32>)>
    %3 = "builtin.unrealized_conversion_cast" (%2) : (!llvm.struct<(!llvm.ptr, !llvm.ptr, i32, !llvm.array<2 x i32>, !llvm.array<2 x i32>)>) ->  memref<4x4xi32>
    %v = "memref.subview"(%3) <{operandSegmentSizes = array<i32: 1, 0, 0, 0>, static_offsets = array<i64: 0, 0>, static_sizes = array<i64: 2, 4>, static_strides = array<i64: 1, 1>}> : (memref<4x4xi32>) -> memref<2x4xi32, strided<[4, 1]>>
    "test.op"(%3) : (memref<4x4xi32>) -> ()
    %4 = "snax.alloc"(%1, %0, %0) <{memory_space = "Test", alignment = 1 : i32}> : (index, index, index) -> !llvm.struct<(!llvm.ptr, !llvm.ptr, i32, !llvm.array<2 x i32>, !llvm.array<2 x i32>)>
    %5 = "builtin.unrealized_conversion_cast" (%4) : (!llvm.struct<(!llvm.ptr, !llvm.ptr, i32, !llvm.array<2 x i32>, !llvm.array<2 x i32>)>) -> memref<4x4xi32>
    "test.op"(%5) : (memref<4x4xi32>) -> ()
    "test.op"(%v, %5) : (memref<2x4xi32, strided<[4, 1]>>, memref<4x4xi32>) -> ()
    func.return
  }
}
