// C18 / F-C18-2 (repaired in /repo 7d70c21): kernel ops that do not read the block arguments in canonical order, and a body
// that does not yield the kernel result. Before the repair `snax-opt -p convert-kernel-to-linalg` expanded them to
//   f0: x0*x1 (instead of x0*x0)   f1: zero points un-exchanged   f2: yields the mac (instead of %x2)
builtin.module {
  func.func @f0(%m0 : memref<8xi8>, %m1 : memref<8xi8>, %m2 : memref<8xi8>) {
    linalg.generic {indexing_maps = [affine_map<(d0) -> (d0)>, affine_map<(d0) -> (d0)>, affine_map<(d0) -> (d0)>], iterator_types = ["parallel"]} ins(%m0, %m1 : memref<8xi8>, memref<8xi8>) outs(%m2 : memref<8xi8>) {
    ^bb0(%x0 : i8, %x1 : i8, %x2 : i8):
      %k = kernel.mul %x0, %x0 : i8, i8 -> i8
      linalg.yield %k : i8
    }
    func.return
  }
  func.func @f1(%m0 : memref<8xi8>, %m1 : memref<8xi8>, %m2 : memref<8xi32>, %m3 : memref<8xi32>, %m4 : memref<8xi32>) {
    linalg.generic {indexing_maps = [affine_map<(d0) -> (d0)>, affine_map<(d0) -> (d0)>, affine_map<(d0) -> (d0)>, affine_map<(d0) -> (d0)>, affine_map<(d0) -> (d0)>], iterator_types = ["parallel"]} ins(%m0, %m1, %m2, %m3 : memref<8xi8>, memref<8xi8>, memref<8xi32>, memref<8xi32>) outs(%m4 : memref<8xi32>) {
    ^bb0(%x0 : i8, %x1 : i8, %x2 : i32, %x3 : i32, %x4 : i32):
      %k = kernel.qmac %x0, %x1 zp_lhs : %x3 zp_rhs : %x2 : i8, i8, i32, i32 -> i32
      linalg.yield %k : i32
    }
    func.return
  }
  func.func @f2(%m0 : memref<8xi8>, %m1 : memref<8xi8>, %m2 : memref<8xi32>) {
    linalg.generic {indexing_maps = [affine_map<(d0) -> (d0)>, affine_map<(d0) -> (d0)>, affine_map<(d0) -> (d0)>], iterator_types = ["parallel"]} ins(%m0, %m1 : memref<8xi8>, memref<8xi8>) outs(%m2 : memref<8xi32>) {
    ^bb0(%x0 : i8, %x1 : i8, %x2 : i32):
      %k = kernel.mac %x0, %x1 : i8, i8 -> i32
      linalg.yield %x2 : i32
    }
    func.return
  }
}
