// C18 / F-C18-3 (known finding, class rescale_result_not_i8): kernel.rescale (i32) -> i32. `snax-opt -p convert-kernel-to-linalg`
// ends the body in `arith.trunci ... : i32 to i8` + `linalg.yield ... : i8` (ill typed, verifier silent); x = 600 gives 44, golden model 300.
builtin.module {
  func.func @f(%m0 : memref<8xi32>, %m1 : memref<8xi32>) {
    linalg.generic {indexing_maps = [affine_map<(d0) -> (d0)>, affine_map<(d0) -> (d0)>], iterator_types = ["parallel"]} ins(%m0 : memref<8xi32>) outs(%m1 : memref<8xi32>) {
    ^bb0(%x0 : i32, %x1 : i32):
      %k = kernel.rescale %x0 {input_zp = 0 : i32, output_zp = 0 : i32, multiplier = array<i32: 1>, shift = array<i32: 1>, max_int = 1000 : i32, min_int = -1000 : i32, double_round = false} : (i32) -> i32
      linalg.yield %k : i32
    }
    func.return
  }
}
