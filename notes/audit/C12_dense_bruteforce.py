"""Brute force for the C12 gap  is_dense L = true  =>  mixed_radix_sorted L = true.
Enumerates flat stride lists (step, bound); density decided by a fast re-implementation that is
cross-checked against the real TiledStridedLayout.is_dense on every dense hit and on a random sample
of non-dense ones.  Writes the dense layouts to a Coq cases file (evaluated by the real Coq model)."""
import itertools, random, sys, json
sys.path.insert(0, "/verif/harness")
import vlib
vlib.setup_impl_path()
from snaxc.ir.tsl import Stride, TiledStride, TiledStridedLayout


def real_dense(l):
    return bool(TiledStridedLayout([TiledStride([Stride(s, b) for (s, b) in l])], offset=0).is_dense())


def real_dense_split(l, cut):
    ts = [TiledStride([Stride(s, b) for (s, b) in l[:cut]]), TiledStride([Stride(s, b) for (s, b) in l[cut:]])]
    return bool(TiledStridedLayout([t for t in ts if t.strides], offset=0).is_dense())


def prod(xs):
    r = 1
    for x in xs:
        r *= x
    return r


def mr_sorted_py(l):
    """mixed_radix_sorted of Model/C12Const.v on a flat static list."""
    if not all(b > 0 for (_, b) in l):
        return False
    # stable ascending insertion sort on step, then reversed
    asc = []
    for x in reversed(l):          # fold_right insert_asc [] l  inserts the last element first
        i = 0
        while i < len(asc) and not (x[0] <= asc[i][0]):
            i += 1
        asc.insert(i, x)
    ax = asc[::-1]
    for k, (s, b) in enumerate(ax):
        if not (b == 1 or s == prod(bb for (_, bb) in ax[k + 1:])):
            return False
    return True


def search(k, bmax, ncap, negative):
    dense, nondense_sample, visited = [], [], 0
    for bounds in itertools.product(range(1, bmax + 1), repeat=k):
        N = prod(bounds)
        if N > ncap or N == 1:
            continue
        big = [i for i in range(k) if bounds[i] > 1]
        cand = list(range(1, N)) + (list(range(-(N - 1), 0)) if negative else [])

        def rec(j, vals, steps, possum):
            nonlocal visited
            if j == len(big):
                visited += 1
                if possum == N - 1:     # np.max(all_values) == len - 1 (0 is always a value)
                    yield list(steps)
                return
            b = bounds[big[j]]
            last = (j == len(big) - 1)
            for s in cand:
                ps = possum + (s * (b - 1) if s > 0 else 0)
                if ps > N - 1:
                    if s > 0:
                        break
                    continue
                if last and not negative and ps != N - 1:
                    continue
                nv = set()
                ok = True
                for v in vals:
                    for i in range(b):
                        w = v + s * i
                        if w in nv:
                            ok = False
                            break
                        nv.add(w)
                    if not ok:
                        break
                if not ok:
                    continue
                steps.append(s)
                yield from rec(j + 1, nv, steps, ps)
                steps.pop()

        for steps in rec(0, {0}, [], 0):
            # steps of the bound-1 strides do not influence all_values; try several
            ones = [i for i in range(k) if bounds[i] == 1]
            for u in itertools.product([1, 3, N + 1] + ([-2] if negative else []), repeat=len(ones)):
                l = [None] * k
                for i, s in zip(big, steps):
                    l[i] = (s, bounds[i])
                for i, s in zip(ones, u):
                    l[i] = (s, 1)
                dense.append(l)
    return dense, visited


def main():
    random.seed(1)
    report = {}
    allpos = []
    for (k, bmax, ncap) in [(1, 12, 12), (2, 8, 64), (3, 6, 216), (4, 4, 100), (5, 3, 48), (6, 2, 64)]:
        d, vis = search(k, bmax, ncap, False)
        bad = [l for l in d if not mr_sorted_py(l)]
        # cross-check with the real is_dense
        for l in (d if len(d) < 4000 else random.sample(d, 4000)):
            assert real_dense(l), l
            assert real_dense_split(l, len(l) // 2), l
        report[f"pos k={k} bounds<={bmax} N<={ncap}"] = {"complete_step_vectors_checked": vis, "dense": len(d), "dense_not_sorted": bad[:5]}
        print(k, bmax, ncap, "leaves", vis, "dense", len(d), "counterexamples", len(bad), flush=True)
        allpos += d
    # sanity of the fast density test on random non-dense / dense layouts against the real code
    agree = 0
    for _ in range(3000):
        k = random.choice([1, 2, 3, 4])
        l = [(random.choice([1, 1, 2, 3, 4, 6, 8, 9, 12]), random.choice([1, 2, 3, 4])) for _ in range(k)]
        N = prod(b for _, b in l)
        vals = [0]
        for (s, b) in l:
            vals = [v + s * i for v in vals for i in range(b)]
        fast = len(set(vals)) == len(vals) and max(vals) == N - 1
        assert fast == real_dense(l), l
        agree += 1
        if fast:
            assert mr_sorted_py(l), l
    print("fast density test agrees with the real is_dense on", agree, "random layouts")
    neg = []
    for (k, bmax, ncap) in [(1, 8, 8), (2, 6, 36), (3, 4, 36)]:
        d, vis = search(k, bmax, ncap, True)
        bad = [l for l in d if not mr_sorted_py(l)]
        for l in bad[:200]:
            assert real_dense(l), l
        report[f"neg k={k} bounds<={bmax} N<={ncap}"] = {"leaves": vis, "dense": len(d), "dense_not_sorted": len(bad), "examples": bad[:5]}
        print("neg", k, bmax, ncap, "dense", len(d), "counterexamples", len(bad), bad[:3], flush=True)
        neg += bad
    json.dump({"report": report, "dense_pos": allpos, "neg_bad": neg[:50]}, open("/tmp/dense_bf.json", "w"))


main()
