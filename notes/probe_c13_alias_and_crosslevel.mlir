#map = affine_map<(d0) -> (d0)>
func.func @alias(%arg0 : memref<64xi32, "L3">, %arg2 : memref<64xi32, "L3">) {
  %0 = "memref.alloc"() <{operandSegmentSizes = array<i32: 0, 0>}> {alignment = 64 : i64} : () -> memref<64xi32, "L1">
  %2 = "memref.alloc"() <{operandSegmentSizes = array<i32: 0, 0>}> {alignment = 64 : i64} : () -> memref<64xi32, "L1">
  %v = "memref.subview"(%0) <{operandSegmentSizes = array<i32: 1, 0, 0, 0>, static_offsets = array<i64: 0>, static_sizes = array<i64: 64>, static_strides = array<i64: 1>}> : (memref<64xi32, "L1">) -> memref<64xi32, "L1">
  "memref.copy"(%arg0, %0) : (memref<64xi32, "L3">, memref<64xi32, "L1">) -> ()
  linalg.generic {indexing_maps = [#map, #map], iterator_types = ["parallel"]} ins(%v : memref<64xi32, "L1">) outs(%2 : memref<64xi32, "L1">) {
  ^bb0(%x : i32, %z : i32):
    linalg.yield %x : i32
  }
  func.return
}
func.func @crosslevel(%arg0 : memref<64xi32, "L3">, %n : index) {
  %c0 = arith.constant 0 : index
  %c1 = arith.constant 1 : index
  %0 = "memref.alloc"() <{operandSegmentSizes = array<i32: 0, 0>}> {alignment = 64 : i64} : () -> memref<64xi32, "L1">
  %2 = "memref.alloc"() <{operandSegmentSizes = array<i32: 0, 0>}> {alignment = 64 : i64} : () -> memref<64xi32, "L1">
  scf.for %i = %c0 to %n step %c1 {
    "memref.copy"(%arg0, %0) : (memref<64xi32, "L3">, memref<64xi32, "L1">) -> ()
    scf.for %j = %c0 to %n step %c1 {
      linalg.generic {indexing_maps = [#map, #map], iterator_types = ["parallel"]} ins(%0 : memref<64xi32, "L1">) outs(%2 : memref<64xi32, "L1">) {
      ^bb0(%x : i32, %z : i32):
        linalg.yield %x : i32
      }
      scf.yield
    }
    scf.yield
  }
  func.return
}
