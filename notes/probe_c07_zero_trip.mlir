func.func @zt(%u : i32, %v : i32, %lb : index, %ub : index, %st : index) {
  %s0 = accfg.setup "acc" to ("A" = %u : i32) : !accfg.state<"acc">
  %t0 = "accfg.launch"(%s0) <{param_names = [], accelerator = "acc"}> : (!accfg.state<"acc">) -> !accfg.token<"acc">
  "accfg.await"(%t0) : (!accfg.token<"acc">) -> ()
  scf.for %i = %lb to %ub step %st {
    %w = arith.index_cast %i : index to i32
    %s1 = accfg.setup "acc" to ("A" = %w : i32) : !accfg.state<"acc">
    %t1 = "accfg.launch"(%s1) <{param_names = [], accelerator = "acc"}> : (!accfg.state<"acc">) -> !accfg.token<"acc">
    "accfg.await"(%t1) : (!accfg.token<"acc">) -> ()
    %s2 = accfg.setup "acc" to ("A" = %v : i32) : !accfg.state<"acc">
    %t2 = "accfg.launch"(%s2) <{param_names = [], accelerator = "acc"}> : (!accfg.state<"acc">) -> !accfg.token<"acc">
    "accfg.await"(%t2) : (!accfg.token<"acc">) -> ()
    scf.yield
  }
  %s3 = accfg.setup "acc" to ("A" = %v : i32) : !accfg.state<"acc">
  %t3 = "accfg.launch"(%s3) <{param_names = [], accelerator = "acc"}> : (!accfg.state<"acc">) -> !accfg.token<"acc">
  "accfg.await"(%t3) : (!accfg.token<"acc">) -> ()
  func.return
}
