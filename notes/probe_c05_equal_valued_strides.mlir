func.func @eqsteps(%a : memref<2x2xi8, #tsl.tsl<[2] -> (1), [2] -> (1)>>, %b : memref<2x2xi8, #tsl.tsl<[2] -> (1), [2] -> (4)>>) {
  "memref.copy"(%a, %b) : (memref<2x2xi8, #tsl.tsl<[2] -> (1), [2] -> (1)>>, memref<2x2xi8, #tsl.tsl<[2] -> (1), [2] -> (4)>>) -> ()
  func.return
}
