func.func @hoist_launch_nested(%x : i32, %y : i32, %c : i1, %d : i1) {
  %z = arith.addi %x, %y : i32
  %s0 = accfg.setup "acc" to ("A" = %x : i32) : !accfg.state<"acc">
  %r = scf.if %c -> (!accfg.state<"acc">) {
    %s1 = accfg.setup "acc" from %s0 to ("A" = %y : i32) : !accfg.state<"acc">
    scf.yield %s1 : !accfg.state<"acc">
  } else {
    scf.yield %s0 : !accfg.state<"acc">
  }
  scf.if %d {
    %t1 = "accfg.launch"(%r) <{param_names = [], accelerator = "acc"}> : (!accfg.state<"acc">) -> !accfg.token<"acc">
    "accfg.await"(%t1) : (!accfg.token<"acc">) -> ()
    scf.yield
  }
  %s2 = accfg.setup "acc" from %r to ("A" = %z : i32) : !accfg.state<"acc">
  %t2 = "accfg.launch"(%s2) <{param_names = [], accelerator = "acc"}> : (!accfg.state<"acc">) -> !accfg.token<"acc">
  "accfg.await"(%t2) : (!accfg.token<"acc">) -> ()
  func.return
}
