import xdsl_compat
import numpy as np
from xdsl.ir.affine import AffineMap, AffineDimExpr
from snaxc.ir.dart.access_pattern import Schedule, SchedulePattern, Template, TemplatePattern
from snaxc.ir.dart.scheduler import scheduler_backtrack, is_pure_output_stationary
m, n, k = (AffineDimExpr(i) for i in range(3))
template = Template(TemplatePattern((8,8,8), tp) for tp in [AffineMap(3,0,(m,k)), AffineMap(3,0,(k,n)), AffineMap(3,0,(m,n))])
# matmul with M = 1 -> canonicalize removes the m dim: 2 iteration dims (n,k)
sched = Schedule(SchedulePattern((1,8,8), p) for p in [AffineMap(3,0,(m,k)), AffineMap(3,0,(k,n)), AffineMap(3,0,(m,n))]).canonicalize()
print("canonical dims", sched.num_dims)
res = list(scheduler_backtrack(template, sched, extra_checks=[is_pure_output_stationary]))
print(len(res))
for r in res[:2]:
    print(r[0].bounds); print(r[0].pattern.A); print(r[2].pattern.A)
