func.func @f(%x0 : memref<64xi32>, %x1 : memref<64xi32>, %x2 : memref<64xi32>, %x3 : memref<8xi32>, %ub : index) {
  %lb = arith.constant 0 : index
  %step = arith.constant 1 : index
  %cs8 = arith.constant 8 : index
  %b10 = memref.alloc() : memref<8xi32>
  %b11 = memref.alloc() : memref<8xi32>
  %b12 = memref.alloc() : memref<8xi32>
  scf.for %i = %lb to %ub step %step {
    %o8 = arith.muli %i, %cs8 : index
    %t0_8 = memref.subview %x0[%o8][8][1] : memref<64xi32> to memref<8xi32, strided<[1], offset: ?>>
    %t1_8 = memref.subview %x1[%o8][8][1] : memref<64xi32> to memref<8xi32, strided<[1], offset: ?>>
    %t2_8 = memref.subview %x2[%o8][8][1] : memref<64xi32> to memref<8xi32, strided<[1], offset: ?>>
    "memref.copy"(%t0_8, %b10) {vid = 1 : i64} : (memref<8xi32, strided<[1], offset: ?>>, memref<8xi32>) -> ()
    "snax.cluster_sync_op"() : () -> ()
    "memref.copy"(%b10, %t1_8) {vid = 2 : i64} : (memref<8xi32>, memref<8xi32, strided<[1], offset: ?>>) -> ()
    "snax.cluster_sync_op"() : () -> ()
    %kk = arith.constant 7 : index
    "memref.copy"(%t0_8, %t2_8) {vid = 3 : i64} : (memref<8xi32, strided<[1], offset: ?>>, memref<8xi32, strided<[1], offset: ?>>) -> ()
    "snax.cluster_sync_op"() : () -> ()
  }
  func.return
}
