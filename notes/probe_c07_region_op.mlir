// An op with a region that state tracing has no special case for (the `elif op.regions` branch of
// _weave_states_in_region).  The harness converter reads `"test.op"(%t) ({...})` with one i1 operand as
// "executes its region iff %t" (both outcomes are run), which is one legitimate semantics of an unknown region op.
func.func @region_cond_setup(%x : i32, %y : i32, %z : i32, %c : i1, %t : i1) {
  %s0 = accfg.setup "acc" to ("A" = %x : i32, "B" = %y : i32) : !accfg.state<"acc">
  %t0 = "accfg.launch"(%s0) <{param_names = [], accelerator = "acc"}> : (!accfg.state<"acc">) -> !accfg.token<"acc">
  "accfg.await"(%t0) : (!accfg.token<"acc">) -> ()
  "test.op"(%t) ({
    scf.if %c {
      %s1 = accfg.setup "acc" to ("A" = %z : i32, "B" = %y : i32) : !accfg.state<"acc">
      %t1 = "accfg.launch"(%s1) <{param_names = [], accelerator = "acc"}> : (!accfg.state<"acc">) -> !accfg.token<"acc">
      "accfg.await"(%t1) : (!accfg.token<"acc">) -> ()
      scf.yield
    }
    "test.termop"() : () -> ()
  }) : (i1) -> ()
  %s2 = accfg.setup "acc" to ("A" = %x : i32, "B" = %y : i32) : !accfg.state<"acc">
  %t2 = "accfg.launch"(%s2) <{param_names = [], accelerator = "acc"}> : (!accfg.state<"acc">) -> !accfg.token<"acc">
  "accfg.await"(%t2) : (!accfg.token<"acc">) -> ()
  func.return
}
func.func @region_setup(%x : i32, %y : i32, %z : i32, %t : i1) {
  %s0 = accfg.setup "acc" to ("A" = %x : i32, "B" = %y : i32) : !accfg.state<"acc">
  %t0 = "accfg.launch"(%s0) <{param_names = [], accelerator = "acc"}> : (!accfg.state<"acc">) -> !accfg.token<"acc">
  "accfg.await"(%t0) : (!accfg.token<"acc">) -> ()
  "test.op"(%t) ({
    %s1 = accfg.setup "acc" to ("A" = %z : i32, "B" = %y : i32) : !accfg.state<"acc">
    %t1 = "accfg.launch"(%s1) <{param_names = [], accelerator = "acc"}> : (!accfg.state<"acc">) -> !accfg.token<"acc">
    "accfg.await"(%t1) : (!accfg.token<"acc">) -> ()
    "test.termop"() : () -> ()
  }) : (i1) -> ()
  %s2 = accfg.setup "acc" to ("A" = %x : i32, "B" = %y : i32) : !accfg.state<"acc">
  %t2 = "accfg.launch"(%s2) <{param_names = [], accelerator = "acc"}> : (!accfg.state<"acc">) -> !accfg.token<"acc">
  "accfg.await"(%t2) : (!accfg.token<"acc">) -> ()
  func.return
}
func.func @region_call(%x : i32, %y : i32, %t : i1) {
  %s0 = accfg.setup "acc" to ("A" = %x : i32, "B" = %y : i32) : !accfg.state<"acc">
  %t0 = "accfg.launch"(%s0) <{param_names = [], accelerator = "acc"}> : (!accfg.state<"acc">) -> !accfg.token<"acc">
  "accfg.await"(%t0) : (!accfg.token<"acc">) -> ()
  "test.op"(%t) ({
    func.call @foo() : () -> ()
    "test.termop"() : () -> ()
  }) : (i1) -> ()
  %s2 = accfg.setup "acc" to ("A" = %x : i32, "B" = %y : i32) : !accfg.state<"acc">
  %t2 = "accfg.launch"(%s2) <{param_names = [], accelerator = "acc"}> : (!accfg.state<"acc">) -> !accfg.token<"acc">
  "accfg.await"(%t2) : (!accfg.token<"acc">) -> ()
  func.return
}
func.func private @foo() -> ()
