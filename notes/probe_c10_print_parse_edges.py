import xdsl_compat, io
from xdsl.context import Context
from xdsl.parser import Parser
from xdsl.printer import Printer
from snaxc.dialects.tsl import TSL, TiledStridedLayoutAttr
from snaxc.ir.tsl import Stride, TiledStride, TiledStridedLayout
ctx = Context(); ctx.load_dialect(TSL)
def rt(l):
    a = TiledStridedLayoutAttr(l); s = io.StringIO(); Printer(s).print_attribute(a); t = s.getvalue()
    try:
        b = Parser(ctx, t).parse_attribute()
        return t, b.data == l, str(b.data)
    except Exception as e:
        return t, "ERR", repr(e)[:80]
print(rt(TiledStridedLayout([TiledStride([Stride(32,2),Stride(4,4)]),TiledStride([Stride(16,2),Stride(1,4)])])))
print(rt(TiledStridedLayout([TiledStride([Stride(0,2),Stride(4,4)])])))
print(rt(TiledStridedLayout([TiledStride([Stride(None,None),Stride(4,4)])], offset=7)))
print(rt(TiledStridedLayout([TiledStride([Stride(8,2)])], offset=-3)))
print(rt(TiledStridedLayout([TiledStride([Stride(8,2)])], offset=None)))
print(rt(TiledStridedLayout([])))
# affine map vs all_values on a depth-3 layout
import itertools, numpy as np
l = TiledStridedLayout([TiledStride([Stride(100,2),Stride(10,3),Stride(1,2)]),TiledStride([Stride(1000,2),Stride(500,2)])])
m = TiledStridedLayoutAttr(l).get_affine_map()
vals = [m.eval([i,j],[])[0] for i in range(12) for j in range(4)]
print(vals == list(l.all_values()), l.self_overlaps(), l.is_dense())
c = l.canonicalize(); print(str(c))
# canonicalize squashing with bound-1 innermost
l2 = TiledStridedLayout([TiledStride([Stride(8,2),Stride(4,2),Stride(7,1)])]); print(str(l2.canonicalize()), list(l2.all_values()), list(l2.canonicalize().all_values()))
l3 = TiledStridedLayout([TiledStride([Stride(8,2),Stride(4,1),Stride(4,2)])]); print(str(l3.canonicalize()), list(l3.all_values()), list(l3.canonicalize().all_values()))
