#map = affine_map<(d0) -> (d0)>
"accfg.accelerator"() <{name = @snax_alu, fields = {}, launch_fields = {}, barrier = 0 : i32}> : () -> ()
func.func @sq(%a : memref<8xi64>, %b : memref<8xi64>, %c : memref<8xi64>) {
  linalg.generic {indexing_maps = [#map, #map, #map], iterator_types = ["parallel"]} ins(%a, %b : memref<8xi64>, memref<8xi64>) outs(%c : memref<8xi64>) {
  ^bb0(%x : i64, %y : i64, %z : i64):
    %m = arith.muli %x, %x : i64
    linalg.yield %m : i64
  }
  func.return
}
func.func @i8mul(%a : memref<8xi8>, %b : memref<8xi8>, %c : memref<8xi8>) {
  linalg.generic {indexing_maps = [#map, #map, #map], iterator_types = ["parallel"]} ins(%a, %b : memref<8xi8>, memref<8xi8>) outs(%c : memref<8xi8>) {
  ^bb0(%x : i8, %y : i8, %z : i8):
    %m = arith.muli %x, %y : i8
    linalg.yield %m : i8
  }
  func.return
}
func.func @fakemac(%a : memref<8xi32>, %b : memref<8xi32>, %c : memref<8xi32>) {
  linalg.generic {indexing_maps = [#map, #map, #map], iterator_types = ["parallel"]} ins(%a, %b : memref<8xi32>, memref<8xi32>) outs(%c : memref<8xi32>) {
  ^bb0(%x : i32, %y : i32, %z : i32):
    %m = arith.muli %z, %z : i32
    %s = arith.addi %m, %m : i32
    linalg.yield %s : i32
  }
  func.return
}
