func.func @ov(%x : i32, %v : i32, %lb : index, %ub : index, %st : index) {
  %s0 = accfg.setup "acc" to ("A" = %v : i32) : !accfg.state<"acc">
  %r = scf.for %i = %lb to %ub step %st iter_args(%l0 = %s0) -> (!accfg.state<"acc">) {
    %w = arith.index_cast %i : index to i32
    %s1 = accfg.setup "acc" from %l0 to ("A" = %w : i32) : !accfg.state<"acc">
    %t1 = "accfg.launch"(%s1) <{param_names = [], accelerator = "acc"}> : (!accfg.state<"acc">) -> !accfg.token<"acc">
    "accfg.await"(%t1) : (!accfg.token<"acc">) -> ()
    %s2 = accfg.setup "acc" from %s1 to ("A" = %v : i32) : !accfg.state<"acc">
    %t2 = "accfg.launch"(%s2) <{param_names = [], accelerator = "acc"}> : (!accfg.state<"acc">) -> !accfg.token<"acc">
    "accfg.await"(%t2) : (!accfg.token<"acc">) -> ()
    scf.yield %s2 : !accfg.state<"acc">
  }
  %t3 = "accfg.launch"(%r) <{param_names = [], accelerator = "acc"}> : (!accfg.state<"acc">) -> !accfg.token<"acc">
  "accfg.await"(%t3) : (!accfg.token<"acc">) -> ()
  func.return
}
