// audit-d, C06 — REPAIRED by /repo fix 9047e02 (the guard now walks into regions; the pass leaves this loop alone).
// Before the fix: LoopLevelSetupAwaitOverlapPattern's guard "no launch between the loop start and the setup"
// used previous_ops_of(op), which does not look into regions.  The launch inside the scf.if uses the
// loop-carried state %l0 BEFORE the setup; after the rewrite (setup of iteration k+1 executed at the end of
// iteration k, prologue copy in front of the loop) that launch observes A = cast(i_k) instead of
// A = cast(i_{k-1}) (and instead of %v in the first iteration).  Trace differs for %c = 1 and >= 1 trips,
// e.g. args (x,v,lb,ub,st,c) = (10,113,-3,0,1,1); safe_after_loop holds (A is rewritten after the loop), so
// the failure is outside the known class F4.
func.func @f(%x : i32, %v : i32, %lb : index, %ub : index, %st : index, %c : i1) {
  %s0 = accfg.setup "acc" to ("A" = %v : i32) : !accfg.state<"acc">
  %r = scf.for %i = %lb to %ub step %st iter_args(%l0 = %s0) -> (!accfg.state<"acc">) {
    scf.if %c {
      %tq = "accfg.launch"(%l0) <{param_names = [], accelerator = "acc"}> : (!accfg.state<"acc">) -> !accfg.token<"acc">
      "accfg.await"(%tq) : (!accfg.token<"acc">) -> ()
      scf.yield
    }
    %w = arith.index_cast %i : index to i32
    %s1 = accfg.setup "acc" from %l0 to ("A" = %w : i32) : !accfg.state<"acc">
    %t1 = "accfg.launch"(%s1) <{param_names = [], accelerator = "acc"}> : (!accfg.state<"acc">) -> !accfg.token<"acc">
    "accfg.await"(%t1) : (!accfg.token<"acc">) -> ()
    scf.yield %s1 : !accfg.state<"acc">
  }
  %sp = accfg.setup "acc" from %r to ("A" = %x : i32) : !accfg.state<"acc">
  %tp = "accfg.launch"(%sp) <{param_names = [], accelerator = "acc"}> : (!accfg.state<"acc">) -> !accfg.token<"acc">
  "accfg.await"(%tp) : (!accfg.token<"acc">) -> ()
  func.return
}
