// audit C07: already threaded scf.if; re-running accfg-trace-states duplicates the state result (sound, but the
// certificate wf_prog / cert_side rejects two state results for one accelerator).
func.func @rethread_if(%x : i32, %y : i32, %c : i1) {
  %s0 = accfg.setup "acc" to ("A" = %x : i32) : !accfg.state<"acc">
  %t0 = "accfg.launch"(%s0) <{param_names = [], accelerator = "acc"}> : (!accfg.state<"acc">) -> !accfg.token<"acc">
  "accfg.await"(%t0) : (!accfg.token<"acc">) -> ()
  %r = scf.if %c -> (!accfg.state<"acc">) {
    %s1 = accfg.setup "acc" from %s0 to ("A" = %y : i32) : !accfg.state<"acc">
    %t1 = "accfg.launch"(%s1) <{param_names = [], accelerator = "acc"}> : (!accfg.state<"acc">) -> !accfg.token<"acc">
    "accfg.await"(%t1) : (!accfg.token<"acc">) -> ()
    scf.yield %s1 : !accfg.state<"acc">
  } else {
    scf.yield %s0 : !accfg.state<"acc">
  }
  %s3 = accfg.setup "acc" from %r to ("A" = %x : i32) : !accfg.state<"acc">
  %t3 = "accfg.launch"(%s3) <{param_names = [], accelerator = "acc"}> : (!accfg.state<"acc">) -> !accfg.token<"acc">
  "accfg.await"(%t3) : (!accfg.token<"acc">) -> ()
  func.return
}
