#!/bin/bash
# MANIFEST.setup_cmd: build the whole framework offline from files under /verif and /repo.
HERE="$(cd "$(dirname "$0")" && pwd)"
cd "$HERE"
export SNAX_REPO="${SNAX_REPO:-/repo}"
export PYTHONPATH="$SNAX_REPO:$HERE/harness:$HERE/translator"
export PYTHONHASHSEED=0 SNAX_MLIR_VERIF=1 PYTHONDONTWRITEBYTECODE=1
mkdir -p coq/Gen coq/Cases evidence replays
# (T) regenerate every generated Coq file from the current source
/venv/bin/python harness/genall.py || echo "setup: a generator failed (the corresponding check will report it)"
./coq/mkproject.sh
# full .vo build of everything; -k so that one broken property does not hide the others
timeout 3000 make -C coq -k -j16 > coq/.build.log 2>&1
rc=$?
tail -5 coq/.build.log
# optional extracted runners
if [ -x tools/build_runners.sh ]; then tools/build_runners.sh || echo "setup: runner build failed"; fi
echo "setup: make exit $rc"
exit 0
