"""Spec for snaxc/util/canonicalize_affine.py -> coq/Gen/CanonAffine.v (property C19).
xDSL's AffineExpr classes are viewed as the constructors of Model/XdslAffine.v."""
import py2coq
from py2coq import Adt, AdtClass, Enum, Field, Op, Spec

OUT = "CanonAffine.v"

AEXPR = "adt:aexpr"
AFFINE_EXPR = Adt(
    py_base="AffineExpr", coq_type="aexpr", eqb="aexpr_eqb",
    classes={
        "AffineDimExpr": AdtClass("EDim", "is_EDim", [Field("position", "int", "e_position")]),
        "AffineSymExpr": AdtClass("ESym", "is_ESym", [Field("position", "int", "e_position")]),
        "AffineConstantExpr": AdtClass("ECst", "is_ECst", [Field("value", "int", "e_value")]),
        "AffineBinaryOpExpr": AdtClass("EBin", "is_EBin", [Field("kind", "enum:akind", "e_kind"),
                                                          Field("lhs", AEXPR, "e_lhs"),
                                                          Field("rhs", AEXPR, "e_rhs")]),
    },
    binops={
        ("+", AEXPR, AEXPR): Op("xadd", AEXPR),
        ("+", AEXPR, "int"): Op("xadd_int", AEXPR),
        ("*", AEXPR, AEXPR): Op("xmul", AEXPR, partial=True),
        ("-", AEXPR, AEXPR): Op("xsub", AEXPR),
        ("//", AEXPR, AEXPR): Op("xfloordiv", AEXPR, partial=True),
        ("%", AEXPR, AEXPR): Op("xmod", AEXPR, partial=True),
    },
)
AFFINE_MAP = Adt(
    py_base="AffineMap", coq_type="amap", eqb="amap_eqb",
    classes={"AffineMap": AdtClass("AMap", "is_AMap", [Field("num_dims", "int", "num_dims", total=True),
                                                       Field("num_symbols", "int", "num_symbols", total=True),
                                                       Field("results", "list:" + AEXPR, "results", total=True)])},
)
KIND = Enum("AffineBinaryOpKind", "akind", "akind_eqb",
            {"Add": "KAdd", "Mul": "KMul", "Mod": "KMod", "FloorDiv": "KFloorDiv", "CeilDiv": "KCeilDiv"})

SPEC = Spec(
    source="snaxc/util/canonicalize_affine.py",
    imports=["From Snax Require Import Base.Prelude Model.PyLib Model.XdslAffine."],
    functions=None,
    adts=[AFFINE_EXPR, AFFINE_MAP],
    enums=[KIND],
)
