"""Spec for StridePattern.canonicalize (snaxc/dialects/snax_stream.py) -> coq/Gen/StrideCanon.v (C19, C02).
The attribute wrappers are viewed structurally: ArrayAttr[IntAttr] as `list Z` (`.data` and `IntAttr(..)`
are the identity on that view), StridePattern as the record `SP ub ts ss` of Model/C19Stride.v."""
from py2coq import Adt, AdtClass, Field, Spec

OUT = "StrideCanon.v"

SP = Adt(
    py_base="StridePattern", coq_type="spattern", eqb="spattern_eqb",
    classes={"StridePattern": AdtClass("SP", "is_SP", [Field("upper_bounds", "list:int", "sp_ub", total=True),
                                                       Field("temporal_strides", "list:int", "sp_ts", total=True),
                                                       Field("spatial_strides", "list:int", "sp_ss", total=True)])},
)
SPEC = Spec(
    source="snaxc/dialects/snax_stream.py",
    imports=["From Snax Require Import Base.Prelude Model.PyLib Model.C19Stride."],
    functions=["StridePattern.canonicalize"],
    adts=[SP],
    self_type={"StridePattern": "adt:spattern"},
    identity_attrs={"data"},
    identity_ctors={"IntAttr"},
)
