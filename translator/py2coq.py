"""py2coq — fail-closed translator from a restricted, pure, imperative Python subset to Gallina.

Purpose (DESIGN.md §3.2): for small pure functions whose *text* is what a realistic change edits, the
Coq model is regenerated from $SNAX_REPO on every `./check` run; the theorems are stated against the
generated definitions, so a semantic change of the Python breaks `make`, while a harmless rewrite
inside the subset keeps it green.  Anything outside the subset raises `vlib.TranslatorError`
(the check treats that exactly like a broken proof).

-------------------------------------------------------------------------------------------------
INTERFACE (for plugin authors)

    import py2coq
    spec = py2coq.Spec(
        source="snaxc/util/canonicalize_affine.py",      # path below the repo root
        functions=None,                                  # None = every top-level def, or a list of
                                                         # names / "Class.method" names, in any order
        imports=["From Snax Require Import Base.Prelude Model.PyLib Model.XdslAffine."],
        adts=[py2coq.Adt(...)], enums=[py2coq.Enum(...)],
        prefix="",                                       # prefix of generated function names
        self_type={"StridePattern": "adt:spattern"},     # methods: type of `self`; `-> Self` and
                                                         # `type(self)(...)` then mean that class
        identity_attrs={"data"}, identity_ctors={"IntAttr"},   # wrappers that are the identity on the
                                                         # int / list view (x.data, IntAttr(x))
        signatures={...},                                # optional explicit (params, result) types
    )
    text = py2coq.translate(repo_root, spec)             # -> str (a complete .v file)
    vlib.write_if_changed(vlib.COQ / "Gen" / "CanonAffine.v", text)

    CLI for debugging:  python3 translator/py2coq.py translator/specs/canonicalize_affine.py [repo]

A spec file under translator/specs/ defines `SPEC` (a py2coq.Spec) and `OUT` (file name below coq/Gen).

Declaring data types
    Adt(py_base, coq_type, eqb, classes={PyClass: AdtClass(ctor, tester, fields=[Field(name, type,
        proj, total)])}, binops={("+", "adt:aexpr"): Op("xadd", "adt:aexpr", partial=False), ...})
      * `isinstance(x, PyClass)` -> `tester x`;  `PyClass(a, b)` -> `ctor a b`
      * `x.name` -> `proj x`; unless `total`, `proj` returns `option` (None = AttributeError)
      * `a + b` on values of the ADT -> the declared Coq function (partial ones return option)
    Enum(py_name, coq_type, eqb, members={PyMember: coq_ctor})
    Types are written as strings: "int", "bool", "opt:T", "list:T", "adt:<coq_type>", "enum:<coq_type>".
    Python annotations are mapped: int, bool, `T | None`, list[T], tuple[T, ...], Sequence[T], names of
    declared ADT classes / enums.

THE SUBSET
    def f(a: T, ...) -> R          every parameter and the result must be annotated (or given in
                                   Spec.signatures); docstrings are skipped
    x = e, x: T = e, x += e        rebinding of locals; `xs.append(e)`, `xs.insert(0, e)`,
                                   `xs[-1] = e`, `xs[-1] op= e` rebind the list variable
    if / elif / else, early return, assert (failure -> None), pass, raise (-> None)
    for x in xs / zip(..)/ reversed(..) / enumerate(..) / range(n)   (accumulators = the locals rebound
                                   in the body; compiled to fold_left over an outcome), `continue`
                                   only where the enclosing ifs need no join point
    expressions: int literals, True/False/None, locals, + - * // % (Z; // and % are Z.div/Z.modulo),
                 unary -, not, and/or (short-circuit preserved when an operand can fail), comparisons
                 (== != < <= > >=, `is`/`is not` None, `is` on enum members, `in` on lists),
                 isinstance, constructor calls, field access, calls of other translated functions,
                 len(), int(), xs[-1], xs[i], tuple/list(f(x) for x in xs), [e for x in xs], `a if c else b`,
                 tuples (only as zip targets / returns)
COMPILATION SCHEME
    * every translated function returns `option R`: None = Python exception, failed assert, or fuel
      exhaustion.  Functions on a call-graph cycle become one `Fixpoint … with …` on `fuel`; functions
      that (transitively) call them take `fuel` and pass it on; the others are plain Definitions.
    * expressions are flattened to A-normal form: each operation that can fail is bound by
      `bind t <- op; …` (Model/PyLib.v) in Python evaluation order.
    * a statement block compiles to an *outcome* `Ret v | Cont locals` only where control flow joins:
      `if` whose both arms can fall through and that is followed by more statements becomes
         match (if c then A else B) with None => None | Some (Ret r) => return r
                                       | Some (Cont (rebound locals)) => rest end
      (linear size).  An `if` with an arm that always returns just prepends to the rest; a final `if`
      needs nothing.  Locals assigned in one arm only and not defined before are unusable after the join.
    * locals are named `v_<name>`, temporaries `t<n>__`; generated function names get Spec.prefix.
TRUSTED: this file (the meaning it gives the subset), the spec (how Python classes are viewed as Coq
    constructors) and the hand models of library functions the spec refers to.
"""
from __future__ import annotations

import ast
import hashlib
import sys
from dataclasses import dataclass, field as dfield
from pathlib import Path

try:  # the harness defines the exception class; stand-alone use gets a local one
    from vlib import TranslatorError
except Exception:  # pragma: no cover
    class TranslatorError(Exception):
        pass


# ------------------------------------------------------------------------------------------- spec
@dataclass
class Field:
    name: str
    type: str
    proj: str
    total: bool = False


@dataclass
class AdtClass:
    ctor: str
    tester: str
    fields: list[Field]


@dataclass
class Op:
    fn: str
    result: str
    partial: bool = False


@dataclass
class Adt:
    py_base: str
    coq_type: str
    eqb: str
    classes: dict[str, AdtClass]
    binops: dict[tuple[str, str], Op] = dfield(default_factory=dict)


@dataclass
class Enum:
    py_name: str
    coq_type: str
    eqb: str
    members: dict[str, str]


@dataclass
class Spec:
    source: str
    imports: list[str]
    functions: list[str] | None = None
    adts: list[Adt] = dfield(default_factory=list)
    enums: list[Enum] = dfield(default_factory=list)
    prefix: str = ""
    signatures: dict[str, tuple[list[tuple[str, str]], str]] = dfield(default_factory=dict)
    self_type: dict[str, str] = dfield(default_factory=dict)   # "Class" -> type of `self` in its methods
    identity_attrs: set[str] = dfield(default_factory=set)     # `.data` on an int / list view is the identity
    identity_ctors: set[str] = dfield(default_factory=set)     # `IntAttr(e)` on an int view is the identity
    header: str = ""


# ------------------------------------------------------------------------------------------ types
def t_opt(t):
    return "opt:" + t


def is_opt(t):
    return t.startswith("opt:")


def is_list(t):
    return t.startswith("list:")


def inner(t):
    return t.split(":", 1)[1]


def coq_type(t: str) -> str:
    if t == "int":
        return "Z"
    if t == "bool":
        return "bool"
    if t == "none":
        return "unit"
    if t.startswith("opt:"):
        return f"(option {coq_type(inner(t))})"
    if t.startswith("list:"):
        return f"(list {coq_type(inner(t))})"
    if t.startswith("adt:") or t.startswith("enum:"):
        return inner(t)
    if t.startswith("tuple:"):
        return "(" + " * ".join(coq_type(x) for x in t[6:].split(",")) + ")"
    raise TranslatorError(f"no Coq type for {t}")


@dataclass
class E:
    """A compiled expression: `binds` (name, option-term) to run first, then `term`.
    If `opt`, `term` itself has type `option ty` (a computation that can fail) else type `ty`."""
    binds: list
    term: str
    ty: str
    opt: bool = False


POISON = "<maybe-unbound>"


def zlit(n: int) -> str:
    return f"({n})%Z" if n < 0 else f"{n}%Z"


class _Fail(TranslatorError):
    pass


# -------------------------------------------------------------------------------------- translator
class FunTranslator:
    def __init__(self, mod: "ModuleTranslator", fn: ast.FunctionDef, qual: str, cls: str | None = None):
        self.m = mod
        self.fn = fn
        self.qual = qual
        self.cls = cls
        self.counter = 0
        self.calls: set[str] = set()
        self.fuel_var = "fuel"

    # -- errors
    def fail(self, node, msg):
        ln = getattr(node, "lineno", "?")
        raise TranslatorError(f"{self.m.spec.source}:{ln}: {self.qual}: {msg}")

    def fresh(self):
        self.counter += 1
        return f"t{self.counter}__"

    # -- expression helpers
    def atom(self, e: E) -> E:
        """force into a pure term (adds a bind when the term itself can fail)"""
        if not e.opt:
            return e
        n = self.fresh()
        return E(e.binds + [(n, e.term)], n, e.ty, False)

    def combine(self, parts: list[E], build, ty, opt=False) -> E:
        binds, terms = [], []
        for p in parts:
            p = self.atom(p)
            binds += p.binds
            terms.append(p.term)
        return E(binds, build(*terms), ty, opt)

    def as_opt_term(self, e: E) -> str:
        body = e.term if e.opt else f"Some {e.term}"
        return self.wrap_binds(e.binds, body)

    @staticmethod
    def wrap_binds(binds, body: str) -> str:
        for (n, t) in reversed(binds):
            body = f"bind {n} <- {t};\n{body}"
        return body

    def unwrap_opt(self, e: E, node) -> E:
        """use an `int | None` value where an int is needed: None -> TypeError -> None"""
        if is_opt(e.ty):
            e = self.atom(e)
            n = self.fresh()
            return E(e.binds + [(n, e.term)], n, inner(e.ty), False)
        return e

    def coerce(self, e: E, want: str, node) -> E:
        if e.ty == want:
            return e
        if is_opt(want) and e.ty == inner(want):
            e = self.atom(e)
            return E(e.binds, f"(Some {e.term})", want, False)
        if is_opt(want) and e.ty == "none":
            return E(e.binds, "None", want, False)
        if is_list(want) and e.ty == "list:?":
            return E(e.binds, e.term if e.opt else f"({e.term} : {coq_type(want)})", want, e.opt)
        self.fail(node, f"type mismatch: have {e.ty}, need {want}")

    # -- annotations
    def ann(self, node) -> str:
        return self.m.ann_type(node, self)

    # -- expressions
    def expr(self, node, env) -> E:
        m = getattr(self, "e_" + type(node).__name__, None)
        if m is None:
            self.fail(node, f"expression {type(node).__name__} outside the subset")
        return m(node, env)

    def e_Constant(self, node, env):
        v = node.value
        if v is True or v is False:
            return E([], "true" if v else "false", "bool")
        if v is None:
            return E([], "None", "none")
        if isinstance(v, int):
            return E([], zlit(v), "int")
        self.fail(node, f"constant {v!r} outside the subset")

    def e_Name(self, node, env):
        if node.id in env:
            if env[node.id] == POISON:
                self.fail(node, f"local {node.id} may be unbound here")
            return E([], "v_" + node.id, env[node.id])
        self.fail(node, f"unknown name {node.id}")

    def e_Attribute(self, node, env):
        # Enum member
        if isinstance(node.value, ast.Name) and node.value.id in self.m.enums and node.value.id not in env:
            en = self.m.enums[node.value.id]
            if node.attr not in en.members:
                self.fail(node, f"unknown member {node.attr} of {en.py_name}")
            return E([], en.members[node.attr], "enum:" + en.coq_type)
        base = self.expr(node.value, env)
        if node.attr in self.m.spec.identity_attrs and (base.ty == "int" or is_list(base.ty)):
            return base
        if base.ty.startswith("adt:"):
            adt = self.m.adt_by_coq[inner(base.ty)]
            cands = [f for c in adt.classes.values() for f in c.fields if f.name == node.attr]
            if not cands:
                self.fail(node, f"no field {node.attr} on {adt.py_base}")
            f = cands[0]
            if any((c.proj, c.type, c.total) != (f.proj, f.type, f.total) for c in cands):
                self.fail(node, f"ambiguous field {node.attr}")
            return self.combine([base], lambda b: f"({f.proj} {b})", f.type, opt=not f.total)
        self.fail(node, f"attribute .{node.attr} on a value of type {base.ty}")

    ARITH = {ast.Add: ("+", "Z.add"), ast.Sub: ("-", "Z.sub"), ast.Mult: ("*", "Z.mul"),
             ast.FloorDiv: ("//", "Z.div"), ast.Mod: ("%", "Z.modulo")}

    def binop(self, opnode, l: E, r: E, node) -> E:
        if type(opnode) not in self.ARITH:
            self.fail(node, f"operator {type(opnode).__name__} outside the subset")
        sym, zfn = self.ARITH[type(opnode)]
        if l.ty == "int" and r.ty == "int":
            if sym in ("//", "%"):
                # ZeroDivisionError -> None
                return self.combine([l, r], lambda a, b: f"(if {b} =? 0 then None else Some ({zfn} {a} {b}))", "int", opt=True)
            return self.combine([l, r], lambda a, b: f"({zfn} {a} {b})", "int")
        for side, other in ((l, r), (r, l)):
            if side.ty.startswith("adt:"):
                adt = self.m.adt_by_coq[inner(side.ty)]
                op = adt.binops.get((sym, l.ty, r.ty))
                if op is None:
                    self.fail(node, f"no operator {sym} declared for ({l.ty}, {r.ty})")
                return self.combine([l, r], lambda a, b: f"({op.fn} {a} {b})", op.result, opt=op.partial)
        if is_list(l.ty) and sym == "+" and l.ty == r.ty:
            return self.combine([l, r], lambda a, b: f"({a} ++ {b})", l.ty)
        self.fail(node, f"operator {sym} on ({l.ty}, {r.ty})")

    def e_BinOp(self, node, env):
        return self.binop(node.op, self.expr(node.left, env), self.expr(node.right, env), node)

    def e_UnaryOp(self, node, env):
        v = self.expr(node.operand, env)
        if isinstance(node.op, ast.Not):
            return self.combine([self.truth(v, node)], lambda a: f"(negb {a})", "bool")
        if isinstance(node.op, ast.USub) and v.ty == "int":
            return self.combine([v], lambda a: f"(Z.opp {a})", "int")
        self.fail(node, "unary operator outside the subset")

    def truth(self, e: E, node) -> E:
        """Python truthiness of a value used as a condition"""
        if e.ty == "bool":
            return e
        if e.ty == "int":
            return self.combine([e], lambda a: f"(negb ({a} =? 0))", "bool")
        if e.ty == "opt:int":
            return self.combine([e], lambda a: f"(truthy {a})", "bool")
        if is_list(e.ty):
            return self.combine([e], lambda a: f"(negb (Nat.eqb (length {a}) 0))", "bool")
        self.fail(node, f"truthiness of {e.ty} outside the subset")

    def e_BoolOp(self, node, env):
        vals = [self.truth(self.expr(v, env), node) for v in node.values]
        is_and = isinstance(node.op, ast.And)
        if all(not v.binds and not v.opt for v in vals[1:]):
            return self.combine(vals, lambda *ts: "(" + (" && " if is_and else " || ").join(ts) + ")", "bool")
        # short-circuit with fallible right operands
        acc = vals[-1]
        for v in reversed(vals[:-1]):
            v = self.atom(v)
            rest = self.as_opt_term(acc)
            if is_and:
                term = f"(if {v.term} then ({rest}) else Some false)"
            else:
                term = f"(if {v.term} then Some true else ({rest}))"
            acc = E(v.binds, term, "bool", True)
        return acc

    def e_IfExp(self, node, env):
        c = self.atom(self.truth(self.expr(node.test, env), node))
        a, b = self.expr(node.body, env), self.expr(node.orelse, env)
        ty = a.ty
        if a.ty != b.ty:
            if a.ty == "none" or is_opt(b.ty) and inner(b.ty) == a.ty:
                ty = b.ty if is_opt(b.ty) else t_opt(b.ty)
            elif b.ty == "none" or is_opt(a.ty) and inner(a.ty) == b.ty:
                ty = a.ty if is_opt(a.ty) else t_opt(a.ty)
            else:
                self.fail(node, f"branches of conditional expression have types {a.ty} / {b.ty}")
            a, b = self.coerce(a, ty, node), self.coerce(b, ty, node)
        if not (a.binds or a.opt or b.binds or b.opt):
            return E(c.binds, f"(if {c.term} then {a.term} else {b.term})", ty)
        return E(c.binds, f"(if {c.term} then ({self.as_opt_term(a)}) else ({self.as_opt_term(b)}))", ty, True)

    def eqb(self, l: E, r: E, node) -> E:
        t = l.ty
        if l.ty != r.ty:
            if is_opt(l.ty) and inner(l.ty) == r.ty:
                r = self.coerce(r, l.ty, node)
            elif is_opt(r.ty) and inner(r.ty) == l.ty:
                l = self.coerce(l, r.ty, node)
                t = r.ty
            else:
                self.fail(node, f"== between {l.ty} and {r.ty}")
        if t == "int":
            return self.combine([l, r], lambda a, b: f"({a} =? {b})", "bool")
        if t == "opt:int":
            return self.combine([l, r], lambda a, b: f"(optZ_eqb {a} {b})", "bool")
        if t == "bool":
            return self.combine([l, r], lambda a, b: f"(Bool.eqb {a} {b})", "bool")
        if t.startswith("adt:"):
            fn = self.m.adt_by_coq[inner(t)].eqb
            return self.combine([l, r], lambda a, b: f"({fn} {a} {b})", "bool")
        if t.startswith("enum:"):
            fn = self.m.enum_by_coq[inner(t)].eqb
            return self.combine([l, r], lambda a, b: f"({fn} {a} {b})", "bool")
        if t == "list:int":
            return self.combine([l, r], lambda a, b: f"(list_eqb Z.eqb {a} {b})", "bool")
        self.fail(node, f"== on {t} outside the subset")

    def e_Compare(self, node, env):
        if len(node.ops) != 1:
            self.fail(node, "chained comparison outside the subset")
        op = node.ops[0]
        l, r = self.expr(node.left, env), self.expr(node.comparators[0], env)
        if isinstance(op, (ast.Is, ast.IsNot)):
            neg = isinstance(op, ast.IsNot)
            if r.ty == "none":
                if not is_opt(l.ty):
                    self.fail(node, f"`is None` on a value of type {l.ty}")
                return self.combine([l], lambda a: f"({'is_some' if neg else 'is_none'} {a})", "bool")
            if l.ty.startswith("enum:") and l.ty == r.ty:
                e = self.eqb(l, r, node)
                return self.combine([e], lambda a: f"(negb {a})", "bool") if neg else e
            self.fail(node, "`is` only on None and enum members")
        if isinstance(op, (ast.Eq, ast.NotEq)):
            e = self.eqb(l, r, node)
            return self.combine([e], lambda a: f"(negb {a})", "bool") if isinstance(op, ast.NotEq) else e
        if isinstance(op, (ast.In, ast.NotIn)):
            if not is_list(r.ty):
                self.fail(node, f"`in` on {r.ty}")
            x = E([], "x__", inner(r.ty))
            eq = self.eqb(x, self.coerce(l, inner(r.ty), node), node)
            if eq.binds:
                self.fail(node, "`in` with a fallible element")
            lp = self.atom(l)
            e = self.combine([lp, r], lambda a, b: f"(existsb (fun x__ => {self.eqb(x, E([], a, lp.ty), node).term}) {b})", "bool")
            return self.combine([e], lambda a: f"(negb {a})", "bool") if isinstance(op, ast.NotIn) else e
        cmpz = {ast.Lt: "<?", ast.LtE: "<=?", ast.Gt: ">?", ast.GtE: ">=?"}
        if type(op) in cmpz:
            l, r = self.unwrap_opt(l, node), self.unwrap_opt(r, node)
            if l.ty != "int" or r.ty != "int":
                self.fail(node, f"ordering comparison on ({l.ty}, {r.ty})")
            return self.combine([l, r], lambda a, b: f"({a} {cmpz[type(op)]} {b})", "bool")
        self.fail(node, "comparison operator outside the subset")

    def e_Tuple(self, node, env):
        es = [self.expr(x, env) for x in node.elts]
        return self.combine(es, lambda *ts: "(" + ", ".join(ts) + ")", "tuple:" + ",".join(e.ty for e in es))

    def e_List(self, node, env):
        es = [self.expr(x, env) for x in node.elts]
        if not es:
            return E([], "[]", "list:?")
        ty = es[0].ty
        es = [self.coerce(e, ty, node) for e in es]
        return self.combine(es, lambda *ts: "[" + "; ".join(ts) + "]", "list:" + ty)

    def e_Subscript(self, node, env):
        base = self.expr(node.value, env)
        if not is_list(base.ty):
            self.fail(node, f"subscript on {base.ty}")
        idx = node.slice
        if isinstance(idx, ast.UnaryOp) and isinstance(idx.op, ast.USub) and isinstance(idx.operand, ast.Constant) and idx.operand.value == 1:
            return self.combine([base], lambda b: f"(list_last {b})", inner(base.ty), opt=True)
        i = self.expr(idx, env)
        if i.ty != "int":
            self.fail(node, "list index must be an int")
        return self.combine([base, i], lambda b, k: f"(if {k} <? 0 then None else nth_error {b} (Z.to_nat {k}))", inner(base.ty), opt=True)

    def comprehension(self, elt, gens, env, node) -> E:
        if len(gens) != 1 or gens[0].ifs or gens[0].is_async:
            self.fail(node, "comprehension outside the subset")
        g = gens[0]
        it = self.expr(g.iter, env)
        if not is_list(it.ty) or not isinstance(g.target, ast.Name):
            self.fail(node, "comprehension over a non-list / with a pattern target")
        env2 = dict(env)
        env2[g.target.id] = inner(it.ty)
        body = self.expr(elt, env2)
        v = "v_" + g.target.id
        if body.binds or body.opt:
            return self.combine([it], lambda a: f"(mapM (fun {v} => {self.as_opt_term(body)}) {a})", "list:" + body.ty, opt=True)
        return self.combine([it], lambda a: f"(map (fun {v} => {body.term}) {a})", "list:" + body.ty)

    def e_ListComp(self, node, env):
        return self.comprehension(node.elt, node.generators, env, node)

    def e_GeneratorExp(self, node, env):
        return self.comprehension(node.elt, node.generators, env, node)

    def e_Call(self, node, env):
        if node.keywords:
            self.fail(node, "keyword arguments outside the subset")
        f = node.func
        if isinstance(f, ast.Call) and isinstance(f.func, ast.Name) and f.func.id == "type" and len(f.args) == 1 \
                and isinstance(f.args[0], ast.Name) and f.args[0].id == "self" and self.cls in self.m.class_ctor:
            f = ast.Name(id=self.cls, ctx=ast.Load())       # type(self)(...) = the class's own constructor
        if isinstance(f, ast.Name):
            name = f.id
            if name in self.m.spec.identity_ctors and len(node.args) == 1:
                v = self.expr(node.args[0], env)
                if v.ty != "int":
                    self.fail(node, f"{name}() of a non-int")
                return v
            if name == "isinstance" and len(node.args) == 2 and isinstance(node.args[1], ast.Name):
                v = self.expr(node.args[0], env)
                cls = node.args[1].id
                if not v.ty.startswith("adt:") or cls not in self.m.adt_by_coq[inner(v.ty)].classes:
                    self.fail(node, f"isinstance({v.ty}, {cls}) outside the declared ADTs")
                t = self.m.adt_by_coq[inner(v.ty)].classes[cls].tester
                return self.combine([v], lambda a: f"({t} {a})", "bool")
            if name == "len" and len(node.args) == 1:
                v = self.expr(node.args[0], env)
                if not is_list(v.ty):
                    self.fail(node, "len of a non-list")
                return self.combine([v], lambda a: f"(Z.of_nat (length {a}))", "int")
            if name == "int" and len(node.args) == 1:
                v = self.expr(node.args[0], env)
                if v.ty != "int":
                    self.fail(node, "int() of a non-int")
                return v
            if name in ("tuple", "list") and len(node.args) == 1:
                v = self.expr(node.args[0], env)
                if not is_list(v.ty):
                    self.fail(node, f"{name}() of a non-list")
                return v
            if name in self.m.class_ctor:
                adt, cls = self.m.class_ctor[name]
                c = adt.classes[cls]
                if len(node.args) != len(c.fields):
                    self.fail(node, f"{name} expects {len(c.fields)} arguments")
                args = [self.coerce(self.expr(a, env), fl.type, node) for a, fl in zip(node.args, c.fields)]
                return self.combine(args, lambda *ts: "(" + " ".join([c.ctor, *ts]) + ")", "adt:" + adt.coq_type)
            if name in self.m.sigs:
                params, ret = self.m.sigs[name]
                if len(node.args) != len(params):
                    self.fail(node, f"{name} expects {len(params)} arguments")
                args = [self.coerce(self.expr(a, env), pt, node) for a, (_, pt) in zip(node.args, params)]
                self.calls.add(name)
                callee = self.m.spec.prefix + name
                return self.combine(args, lambda *ts: "(" + " ".join([callee, f"<fuel:{name}>", *ts]) + ")", ret, opt=True)
        self.fail(node, f"call of {ast.unparse(f)} outside the subset")

    # -- statements -----------------------------------------------------------------------------
    def assigned(self, stmts) -> set[str]:
        out = set()
        for s in stmts:
            for n in ast.walk(s):
                if isinstance(n, ast.Name) and isinstance(n.ctx, ast.Store):
                    out.add(n.id)
                elif isinstance(n, ast.Expr) and isinstance(n.value, ast.Call) and isinstance(n.value.func, ast.Attribute) \
                        and isinstance(n.value.func.value, ast.Name) and n.value.func.attr in ("append", "insert"):
                    out.add(n.value.func.value.id)
                elif isinstance(n, (ast.Assign, ast.AugAssign)):
                    tg = n.targets[0] if isinstance(n, ast.Assign) else n.target
                    if isinstance(tg, ast.Subscript) and isinstance(tg.value, ast.Name):
                        out.add(tg.value.id)
        return out

    def falls(self, stmts) -> bool:
        """can control reach the end of this statement list?"""
        for s in stmts:
            if isinstance(s, (ast.Return, ast.Raise, ast.Continue)):
                return False
            if isinstance(s, ast.If) and not self.falls(s.body) and not self.falls(s.orelse):
                return False
        return True

    def definitely(self, stmts) -> set[str] | None:
        """locals assigned on every path that falls through (None = no path falls through)"""
        out: set[str] = set()
        for s in stmts:
            if isinstance(s, (ast.Return, ast.Raise, ast.Continue)):
                return None
            if isinstance(s, ast.If):
                a, b = self.definitely(s.body), self.definitely(s.orelse)
                if a is None and b is None:
                    return None
                out |= (a if b is None else b if a is None else (a & b))
            elif isinstance(s, (ast.Assign, ast.AnnAssign, ast.AugAssign)):
                tg = s.targets[0] if isinstance(s, ast.Assign) else s.target
                if isinstance(tg, ast.Name):
                    out.add(tg.id)
        return out

    def cond(self, test, env, then_t: str, else_t: str, node) -> str:
        c = self.truth(self.expr(test, env), node)
        if c.opt:
            body = f"match {c.term} with\n| Some true => {then_t}\n| Some false => {else_t}\n| None => None\nend"
        else:
            body = f"if {c.term}\nthen {then_t}\nelse {else_t}"
        return self.wrap_binds(c.binds, body)

    def pattern(self, names, env=None):
        if not names:
            return "_"
        return "(" + ", ".join("v_" + n for n in names) + ")" if len(names) > 1 else "v_" + names[0]

    def block(self, stmts, env, k) -> str:
        """compile a statement list; k = (ret: term -> str, fall: env -> str)"""
        if not stmts:
            return k[1](env)
        s, rest = stmts[0], stmts[1:]
        env = dict(env)
        if isinstance(s, ast.Expr):
            if isinstance(s.value, ast.Constant) and isinstance(s.value.value, str):
                return self.block(rest, env, k)
            return self.method_stmt(s, rest, env, k)
        if isinstance(s, ast.Pass):
            return self.block(rest, env, k)
        if isinstance(s, ast.Return):
            if rest:
                self.fail(rest[0], "unreachable statement after return")
            if s.value is None:
                e = E([], "None", "none")
            else:
                e = self.expr(s.value, env)
            e = self.coerce(e, self.ret_ty, s)
            if e.opt and len(k) > 3 and k[3]:
                return self.wrap_binds(e.binds, e.term)      # tail call: `bind t <- f x; Some t` = `f x`
            e = self.atom(e)
            return self.wrap_binds(e.binds, k[0](e.term))
        if isinstance(s, ast.Raise):
            return "None"
        if isinstance(s, ast.Continue):
            if rest:
                self.fail(rest[0], "unreachable statement after continue")
            if k[2] is None:
                self.fail(s, "`continue` outside a loop or inside an `if` that needs a join point")
            return k[2](env)
        if isinstance(s, ast.Assert):
            return self.cond(s.test, env, "(" + self.block(rest, env, k) + ")", "None", s)
        if isinstance(s, (ast.Assign, ast.AnnAssign, ast.AugAssign)):
            return self.assign(s, rest, env, k)
        if isinstance(s, ast.If):
            return self.if_stmt(s, rest, env, k)
        if isinstance(s, ast.For):
            return self.for_stmt(s, rest, env, k)
        self.fail(s, f"statement {type(s).__name__} outside the subset")

    def bind_local(self, name, e: E, rest, env, k, node, declared=None) -> str:
        old = env.get(name)
        want = declared or (old if old not in (None, POISON) else None)
        if want is not None and e.ty != want:
            e = self.coerce(e, want, node)
        if e.ty in ("none", "list:?"):
            self.fail(node, f"cannot infer the type of local {name}; annotate it")
        env[name] = e.ty
        body = self.block(rest, env, k)
        if e.opt:
            return self.wrap_binds(e.binds + [("v_" + name, e.term)], body)
        return self.wrap_binds(e.binds, f"let v_{name} := {e.term} in\n{body}")

    def assign(self, s, rest, env, k) -> str:
        if isinstance(s, ast.Assign):
            if len(s.targets) != 1:
                self.fail(s, "multiple assignment targets")
            tg, val, declared = s.targets[0], s.value, None
        elif isinstance(s, ast.AnnAssign):
            if s.value is None:
                return self.block(rest, env, k)
            tg, val, declared = s.target, s.value, self.ann(s.annotation)
        else:
            tg, declared = s.target, None
            val = ast.BinOp(left=_load(tg), op=s.op, right=s.value)
            ast.copy_location(val, s)
            ast.fix_missing_locations(val)
        if isinstance(tg, ast.Name):
            e = self.expr(val, env)
            return self.bind_local(tg.id, e, rest, env, k, s, declared)
        if isinstance(tg, ast.Subscript) and isinstance(tg.value, ast.Name) and _is_minus_one(tg.slice):
            # xs[-1] = e
            xs = self.expr(tg.value, env)
            e = self.coerce(self.expr(val, env), inner(xs.ty), s)
            new = self.combine([xs, e], lambda a, b: f"(list_set_last {a} {b})", xs.ty, opt=True)
            return self.bind_local(tg.value.id, new, rest, env, k, s)
        self.fail(s, "assignment target outside the subset")

    def method_stmt(self, s, rest, env, k) -> str:
        c = s.value
        if isinstance(c, ast.Call) and isinstance(c.func, ast.Attribute) and isinstance(c.func.value, ast.Name) and not c.keywords:
            name, meth = c.func.value.id, c.func.attr
            xs = self.expr(c.func.value, env)
            if is_list(xs.ty):
                if meth == "append" and len(c.args) == 1:
                    e = self.coerce(self.expr(c.args[0], env), inner(xs.ty), s)
                    new = self.combine([xs, e], lambda a, b: f"({a} ++ [{b}])", xs.ty)
                    return self.bind_local(name, new, rest, env, k, s)
                if meth == "insert" and len(c.args) == 2 and isinstance(c.args[0], ast.Constant) and c.args[0].value == 0:
                    e = self.coerce(self.expr(c.args[1], env), inner(xs.ty), s)
                    new = self.combine([xs, e], lambda a, b: f"({b} :: {a})", xs.ty)
                    return self.bind_local(name, new, rest, env, k, s)
        self.fail(s, "expression statement outside the subset")

    def join_vars(self, env, branches):
        """locals that flow out of a join: rebound ones that existed before, or assigned on all paths"""
        assigned = set()
        for b in branches:
            assigned |= self.assigned(b)
        defs = [self.definitely(b) for b in branches]
        live_defs = [d for d in defs if d is not None]
        both = set.intersection(*live_defs) if live_defs else set()
        keep = sorted(v for v in assigned if (v in env and env[v] != POISON) or v in both)
        poison = sorted(assigned - set(keep))
        return keep, poison

    def if_stmt(self, s, rest, env, k) -> str:
        fa, fb = self.falls(s.body), self.falls(s.orelse)
        if not rest or (not fa and not fb):
            if rest and not fa and not fb:
                self.fail(rest[0], "unreachable statement after if")
            return self.cond(s.test, env, "(" + self.block(s.body, env, k) + ")", "(" + self.block(s.orelse, env, k) + ")", s)
        if not fa or not fb:
            a = self.block(s.body + (rest if fa else []), env, k)
            b = self.block(s.orelse + (rest if fb else []), env, k)
            return self.cond(s.test, env, "(" + a + ")", "(" + b + ")", s)
        # both arms can fall through and statements follow: join point through an outcome
        keep, poison = self.join_vars(env, [s.body, s.orelse])
        types: dict[str, str] = {}

        def fall(e2):
            for v in keep:
                t = e2.get(v)
                if t in (None, POISON):
                    self.fail(s, f"local {v} may be unbound at the join")
                if types.setdefault(v, t) != t:
                    self.fail(s, f"local {v} has types {types[v]} / {t} at the join")
            tup = "tt" if not keep else self.pattern(keep)
            return f"Some (Cont {tup})"

        kin = (lambda t: f"Some (Ret {t})", fall, None)
        a = self.block(s.body, env, kin)
        b = self.block(s.orelse, env, kin)
        inner_t = self.cond(s.test, env, "(" + a + ")", "(" + b + ")", s)
        env2 = dict(env)
        for v in keep:
            env2[v] = types[v]
        for v in poison:
            env2[v] = POISON
        rest_t = self.block(rest, env2, k)
        return (f"match ({inner_t}) with\n| None => None\n| Some (Ret r__) => {k[0]('r__')}\n"
                f"| Some (Cont {self.pattern(keep)}) =>\n{rest_t}\nend")

    # -- for loops --------------------------------------------------------------------------------
    def iter_source(self, it, env, node):
        """-> (E of a Coq list, element pattern builder(target) , element types)"""
        if isinstance(it, ast.Call) and isinstance(it.func, ast.Name) and not it.keywords:
            fn = it.func.id
            if fn == "zip":
                parts = [self.expr(a, env) for a in it.args]
                if len(parts) < 2 or not all(is_list(p.ty) for p in parts):
                    self.fail(node, "zip of non-lists")
                e = parts[0]
                tys = [inner(parts[0].ty)]
                for p in parts[1:]:
                    e = self.combine([e, p], lambda a, b: f"(combine {a} {b})", "list:?")
                    tys.append(inner(p.ty))
                return e, tys, "zip"
            if fn == "reversed" and len(it.args) == 1:
                e, tys, kind = self.iter_source(it.args[0], env, node)
                return self.combine([e], lambda a: f"(rev {a})", e.ty), tys, kind
            if fn == "enumerate" and len(it.args) == 1:
                p = self.expr(it.args[0], env)
                if not is_list(p.ty):
                    self.fail(node, "enumerate of a non-list")
                e = self.combine([p], lambda a: f"(combine (zrange (Z.of_nat (length {a}))) {a})", "list:?")
                return e, ["int", inner(p.ty)], "zip"
            if fn == "range" and len(it.args) == 1:
                n = self.expr(it.args[0], env)
                if n.ty != "int":
                    self.fail(node, "range of a non-int")
                return self.combine([n], lambda a: f"(zrange {a})", "list:int"), ["int"], "one"
        p = self.expr(it, env)
        if not is_list(p.ty):
            self.fail(node, f"for over {p.ty}")
        return p, [inner(p.ty)], "one"

    def for_stmt(self, s, rest, env, k) -> str:
        if s.orelse:
            self.fail(s, "for/else outside the subset")
        src, tys, kind = self.iter_source(s.iter, env, s)
        src = self.atom(src)
        if kind == "one":
            if not isinstance(s.target, ast.Name):
                self.fail(s, "loop target must be a name")
            targets = [s.target.id]
        else:
            if not isinstance(s.target, ast.Tuple) or not all(isinstance(t, ast.Name) for t in s.target.elts) or len(s.target.elts) != len(tys):
                self.fail(s, "loop target must be a tuple of names matching the zip")
            targets = [t.id for t in s.target.elts]
        state = sorted(v for v in self.assigned(s.body) if v in env and env[v] != POISON and v not in targets)
        fresh_locals = sorted(self.assigned(s.body) - set(state))
        env_body = dict(env)
        for t, ty in zip(targets, tys):
            env_body[t] = ty
        types = {v: env[v] for v in state}

        def fall(e2):
            for v in state:
                if e2.get(v) != types[v]:
                    self.fail(s, f"loop changes the type of {v}: {types[v]} -> {e2.get(v)}")
            return f"Some (Cont {'tt' if not state else self.pattern(state)})"

        kin = (lambda t: f"Some (Ret {t})", fall, fall)
        body = self.block(s.body, env_body, kin)
        # left-nested pattern of combine
        pat = "v_" + targets[0]
        for t in targets[1:]:
            pat = f"({pat}, v_{t})"
        st0 = "tt" if not state else self.pattern(state)
        loop = (f"fold_left (fun st__ item__ =>\nmatch st__ with\n| Some (Cont {self.pattern(state)}) =>\n"
                f"let '{pat} := item__ in\n{body}\n| other__ => other__\nend) {src.term} (Some (Cont {st0}))")
        env2 = dict(env)
        for v in fresh_locals:
            env2[v] = POISON
        rest_t = self.block(rest, env2, k)
        out = (f"match ({loop}) with\n| None => None\n| Some (Ret r__) => {k[0]('r__')}\n"
               f"| Some (Cont {self.pattern(state)}) =>\n{rest_t}\nend")
        return self.wrap_binds(src.binds, out)

    # -- whole function ---------------------------------------------------------------------------
    def translate_body(self, params, ret_ty) -> str:
        self.ret_ty = ret_ty
        env = {n: t for n, t in params}

        def fall(e2):
            if is_opt(ret_ty):
                return "Some None"
            self.fail(self.fn, "control can reach the end of a function whose result is not optional")

        return self.block(self.fn.body, env, (lambda t: f"Some {t}", fall, None, True))


def _load(tg):
    n = ast.parse(ast.unparse(tg), mode="eval").body
    return n


def _is_minus_one(idx):
    return isinstance(idx, ast.UnaryOp) and isinstance(idx.op, ast.USub) and isinstance(idx.operand, ast.Constant) and idx.operand.value == 1


class ModuleTranslator:
    def __init__(self, spec: Spec, source_text: str):
        self.spec = spec
        self.src = source_text
        self.tree = ast.parse(source_text)
        self.adt_by_coq = {a.coq_type: a for a in spec.adts}
        self.enum_by_coq = {e.coq_type: e for e in spec.enums}
        self.enums = {e.py_name: e for e in spec.enums}
        self.class_ctor = {}
        self.class_type = {}
        for a in spec.adts:
            self.class_type[a.py_base] = "adt:" + a.coq_type
            for cn in a.classes:
                self.class_ctor[cn] = (a, cn)
                self.class_type[cn] = "adt:" + a.coq_type
        self.sigs: dict[str, tuple[list[tuple[str, str]], str]] = {}

    def ann_type(self, node, ft=None, cls=None) -> str:
        if ft is not None and cls is None:
            cls = ft.cls
        def bad():
            raise TranslatorError(f"{self.spec.source}:{getattr(node, 'lineno', '?')}: annotation {ast.unparse(node)} outside the subset")
        if node is None:
            bad()
        if isinstance(node, ast.Constant) and node.value is None:
            return "none"
        if isinstance(node, ast.Constant) and isinstance(node.value, str):
            return self.ann_type(ast.parse(node.value, mode="eval").body)
        if isinstance(node, ast.Name):
            if node.id == "Self" and cls is not None and cls in self.spec.self_type:
                return self.spec.self_type[cls]
            if node.id == "int":
                return "int"
            if node.id == "bool":
                return "bool"
            if node.id in self.class_type:
                return self.class_type[node.id]
            if node.id in self.enums:
                return "enum:" + self.enums[node.id].coq_type
            bad()
        if isinstance(node, ast.BinOp) and isinstance(node.op, ast.BitOr):
            l, r = self.ann_type(node.left), self.ann_type(node.right)
            if r == "none":
                return t_opt(l)
            if l == "none":
                return t_opt(r)
            if l == r:
                return l
            bad()
        if isinstance(node, ast.Subscript) and isinstance(node.value, ast.Name):
            base = node.value.id
            if base in ("list", "Sequence", "Iterable"):
                return "list:" + self.ann_type(node.slice)
            if base == "tuple" and isinstance(node.slice, ast.Tuple) and len(node.slice.elts) == 2 \
                    and isinstance(node.slice.elts[1], ast.Constant) and node.slice.elts[1].value is Ellipsis:
                return "list:" + self.ann_type(node.slice.elts[0])
        bad()

    def find_functions(self):
        """-> list of (name, qualname, FunctionDef, class name or None)"""
        found = {}
        for n in self.tree.body:
            if isinstance(n, ast.FunctionDef):
                found[n.name] = (n.name, n.name, n, None)
            elif isinstance(n, ast.ClassDef):
                for m in n.body:
                    if isinstance(m, ast.FunctionDef):
                        found[f"{n.name}.{m.name}"] = (f"{n.name}_{m.name}", f"{n.name}.{m.name}", m, n.name)
        if self.spec.functions is None:
            return [v for k, v in found.items() if "." not in k]
        out = []
        for f in self.spec.functions:
            if f not in found:
                raise TranslatorError(f"{self.spec.source}: function {f} not found")
            out.append(found[f])
        return out

    def translate(self) -> str:
        funs = self.find_functions()
        # signatures first (calls need them)
        for (name, qual, fn, cls) in funs:
            if qual in self.spec.signatures:
                self.sigs[name] = self.spec.signatures[qual]
                continue
            a = fn.args
            if a.vararg or a.kwarg or a.kwonlyargs or a.posonlyargs or a.defaults:
                raise TranslatorError(f"{self.spec.source}:{fn.lineno}: {qual}: parameter kinds outside the subset")
            if fn.decorator_list and cls is None:
                raise TranslatorError(f"{self.spec.source}:{fn.lineno}: {qual}: decorators outside the subset")
            params = []
            for i, p in enumerate(a.args):
                if cls is not None and i == 0 and p.arg == "self":
                    if cls not in self.spec.self_type:
                        raise TranslatorError(f"{qual}: no self_type declared for {cls}")
                    params.append(("self", self.spec.self_type[cls]))
                    continue
                if p.annotation is None:
                    raise TranslatorError(f"{self.spec.source}:{fn.lineno}: {qual}: parameter {p.arg} is not annotated")
                params.append((p.arg, self.ann_type(p.annotation)))
            self.sigs[name] = (params, self.ann_type(fn.returns, cls=cls))
        # bodies
        bodies, calls = {}, {}
        for (name, qual, fn, cls) in funs:
            ft = FunTranslator(self, fn, qual, cls)
            params, ret = self.sigs[name]
            bodies[name] = ft.translate_body(params, ret)
            calls[name] = ft.calls
        order = [f[0] for f in funs]
        sccs = _sccs(order, calls)
        recursive = {n for comp in sccs if len(comp) > 1 or comp[0] in calls[comp[0]] for n in comp}
        needs_fuel = set(recursive)
        changed = True
        while changed:
            changed = False
            for n in order:
                if n not in needs_fuel and calls[n] & needs_fuel:
                    needs_fuel.add(n)
                    changed = True
        out = [f"(* GENERATED by translator/py2coq.py from {self.spec.source} — do not edit.",
               f"   source sha1 {hashlib.sha1(self.src.encode()).hexdigest()[:16]}; regenerated on every ./check run. *)"]
        out += self.spec.imports
        if self.spec.header:
            out.append(self.spec.header)
        out.append("")
        pre = self.spec.prefix
        for comp in sccs:
            rec = comp[0] in recursive
            defs = []
            for n in comp:
                params, ret = self.sigs[n]
                body = bodies[n]
                for callee in calls[n]:
                    if callee in needs_fuel:
                        arg = "fuel'" if rec else "fuel"
                    else:
                        arg = ""
                    body = body.replace(f" <fuel:{callee}>", (" " + arg) if arg else "")
                ps = " ".join(f"(v_{p} : {coq_type(t)})" for p, t in params)
                fuelp = "(fuel : nat) " if n in needs_fuel else ""
                if rec:
                    body = f"match fuel with\n| O => None\n| S fuel' =>\n{body}\nend"
                    head = f"{pre}{n} {fuelp}{ps} {{struct fuel}} : option {coq_type(ret)} :=\n"
                else:
                    head = f"{pre}{n} {fuelp}{ps} : option {coq_type(ret)} :=\n"
                defs.append(head + _indent(body))
            if rec:
                out.append("Fixpoint " + "\nwith ".join(defs) + ".\n")
            else:
                out.append("Definition " + defs[0] + ".\n")
        return "\n".join(out)


def _indent(text: str) -> str:
    """re-indent the generated term by nesting depth of match/end, parentheses"""
    lines, depth, out = text.split("\n"), 1, []
    for ln in lines:
        s = ln.strip()
        d = depth
        if s.startswith("end") or s.startswith("|") or s.startswith("then") or s.startswith("else"):
            d = max(1, depth - 1) if s.startswith("end") or s.startswith("|") else depth
        out.append("  " * d + s)
        opens = s.count("(") - s.count(")")
        depth += opens
        words = s.replace("(", " ").replace(")", " ").split()
        depth += sum(1 for w in words if w == "match") - sum(1 for w in words if w == "end")
        depth = max(1, depth)
    return "\n".join(out)


def _sccs(order, calls):
    """Tarjan; result in reverse topological order (callees first), members in source order"""
    index, low, stack, on, res = {}, {}, [], set(), []
    counter = [0]

    def visit(v):
        index[v] = low[v] = counter[0]
        counter[0] += 1
        stack.append(v)
        on.add(v)
        for w in sorted(calls[v], key=order.index):
            if w not in index:
                visit(w)
                low[v] = min(low[v], low[w])
            elif w in on:
                low[v] = min(low[v], index[w])
        if low[v] == index[v]:
            comp = []
            while True:
                w = stack.pop()
                on.discard(w)
                comp.append(w)
                if w == v:
                    break
            res.append(sorted(comp, key=order.index))

    for v in order:
        if v not in index:
            visit(v)
    return res


def translate(repo_root, spec: Spec) -> str:
    p = Path(repo_root) / spec.source
    try:
        text = p.read_text()
    except OSError as e:
        raise TranslatorError(f"cannot read {p}: {e}")
    try:
        return ModuleTranslator(spec, text).translate()
    except SyntaxError as e:
        raise TranslatorError(f"{spec.source}: syntax error: {e}")
    except RecursionError:
        raise TranslatorError(f"{spec.source}: expression nesting too deep")


def load_spec(path):
    import importlib.util
    sp = importlib.util.spec_from_file_location("py2coq_spec_" + Path(path).stem, path)
    mod = importlib.util.module_from_spec(sp)
    sp.loader.exec_module(mod)
    return mod


if __name__ == "__main__":  # pragma: no cover
    sys.path.insert(0, str(Path(__file__).resolve().parent))
    m = load_spec(sys.argv[1])
    print(translate(sys.argv[2] if len(sys.argv) > 2 else "/repo", m.SPEC))
